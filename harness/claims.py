"""Claim texts for MANIFEST.json (see DESIGN.md section 5)."""

T = "Kani/CBMC bounded model checking of the real code (symbolic inputs, SAT), native replay of counterexamples"

CLAIMED = {
    "C02": {"design_ref": "5/C02", "technique": T,
            "text": "Solver-decided kernels: the quantifier reduction (any() = some element true, all() = every element true, all() of "
                    "the empty sequence true, every boolean sequence up to 4 elements) and `[n]` on an array of up to 3 elements "
                    "(the n-th element iff n < len, every n up to u32::MAX). Nested paths, map keys, map-each, flattening, "
                    "element-wise logic and truncation are NOT covered (heap-backed LhsValue containers in compiled closures)."},
    "C07": {"design_ref": "5/C07", "technique": T,
            "text": "Solver-decided for the C-API hash writer only: it forwards exactly the bytes written, in order, whatever the chunking (so the hash depends only on the JSON bytes), and one FNV step separates different bytes. The alias tables, whitespace independence, the JSON documents and flattening are NOT covered (lexer/AST/serde code is out of CBMC's reach here) - this is a thin claim."},
    "C12": {"design_ref": "5/C12", "technique": T,
            "text": 'Solver-decided one-step kernels: the walk of every node kind visits exactly its children, in order, through the right visitor method (a dropped child or a skipped argument is caught). The real visitors on a node are a thorough-tier attempt (undecided). The composition over whole trees and name resolution are NOT covered.'},
    "C01": {"design_ref": "5/C01", "technique": T,
            "text": 'Solver-decided for ALL values within the bounds: the comparators the real compile function builds for every ordering operator on Int (all i64 pairs), Ip (all address pairs, mixed families) and Bytes (value <= 3 bytes vs literal <= 2), the bitwise-and test and the bare boolean, together with the default it selects for an absent left side (false, != = nil-not-equal setting) - reached by executing ComparisonExpr::compile_with_compiler with its continuation IndexExpr::compile_with stubbed; the operator tables and the derived precedence order. NOT covered: that the compiled closure yields that default for an absent value (attempted, undecided), parser precedence on whole expressions, execution of composed not/and/or/xor closures.'},
    "C03": {"design_ref": "5/C03", "technique": T,
            "text": 'Solver-decided kernels: every accessor of the per-call FunctionDefinitionContext reaches the same stored object (found a genuine defect); ExactSizeChain order and exact length. The default-substitution closure of SimpleFunctionDefinition::compile is a thorough-tier attempt (undecided so far). Argument compilation, map-each application and concat are NOT covered.'},
    "C04": {"design_ref": "5/C04", "technique": T,
            "text": "Solver-decided parameter-typing kernel: check_param / expect_val_type / kind checks agree with the "
                    "documented rule for every (declared type, actual type, kind, constant-vs-variable) over an 8-type pool "
                    "including nested containers. The lexers that apply the other typing rules are NOT covered."},
    "C05": {"design_ref": "5/C05", "technique": T,
            "text": "Solver-decided span/slicing kernels on ALL ASCII inputs up to 3 characters (take, take_while, span, "
                    "skip_space, expect, complete), ParseError::new on all inputs up to 2 (thorough 3-4) characters over "
                    "{LF, space, a} with every sub-span (no panic, line/column inside the input), the default nesting "
                    "limit; on non-ASCII text: take / take_while / skip_space on every 2-byte character followed by any "
                    "ASCII character (spans count characters and end on character boundaries) and the quoted-string "
                    "lexer on a backslash followed by every 2-byte character (error span = that character, no "
                    "char-boundary panic; 3-byte characters in the thorough tier). Whole-parser totality, stack depth "
                    "and Display are NOT covered."},
    "C06": {"design_ref": "5/C06", "technique": T,
            "text": "Solver-decided on ALL inputs within the bounds: \\xHH accepted iff two hex digits (found the '+' sign "
                    "defect), \\OOO iff three octal digits <= 377, byte separators, the raw-string delimiter scan (<= 3, thorough "
                    "5 characters); and the rules the real IntRange / FieldIndex / IpRange lexers apply to the values returned "
                    "by their (stubbed) leaf lexers: a..b accepted iff a <= b for all i64 pairs, an index accepted iff "
                    "0 <= n <= 2^32-1, an address range iff same family and ordered, CIDR bounds. Digit and address TEXT, "
                    "quoted strings as a whole and hex-pair strings are NOT covered."},
    "C09": {"design_ref": "5/C09", "technique": T,
            "text": "Solver-decided at full machine width: the comparator the real compile function builds for `in {..}` on integers (range, value, range) and on addresses (one IPv4 CIDR or one explicit IPv6 range against a probe of either family, incl. IPv4-mapped probes: family split, CIDR conversion) equals 'some listed item equals or contains x', absent x => false; RangeSet::from + contains for every list of 3 i64 / 3 IPv4 / 2 IPv6 ranges (thorough up to 5) and every probe; the empty list; the address-range lexer rule. Mixed three-item address lists and byte-string sets are thorough-tier attempts. Longer lists and list TEXT are NOT covered."},
    "C10": {"design_ref": "5/C10", "technique": T,
            "text": "Solver-decided: the engine's own `contains` arm (length dispatch over all 15 array sizes, anchor drawn "
                    "inside 1..len, empty pattern) with the SIMD bit and the random anchor made symbolic by two counted "
                    "rewrites, and the delegated sliceslice Avx2Searcher for every needle, EVERY anchor position and every "
                    "haystack within small sizes, against naive search; the single-byte shortcut (either latch value) and the "
                    "scalar fallback (latch off: the real MemmemSearcher, memchr::memmem builder and its Rabin-Karp search "
                    "on values <= 4 bytes, 2- and 3-byte patterns) against naive search, with memchr::memchr replaced by "
                    "its contract and the AVX2 packed-pair finder reported unavailable. 16/32-byte block boundaries, "
                    "needles > 4 in long haystacks, memmem's vector paths (values >= 16 bytes), memchr's own dispatch "
                    "and the USE_AVX2 latch are NOT covered."},
    "C11": {"design_ref": "5/C11", "technique": T,
            "text": "Solver-decided wildcard semantics: Wildcard::<false/true>::new + is_match agree with the documented "
                    "semantics for every pattern of 1-2 (thorough 3) bytes over {a,A,*,?,\\}, every value up to 2 (3) bytes "
                    "and every star limit; validation of every 4-byte pattern (** anywhere, escapes, star limit); the compile "
                    "arms fold case only for the non-strict flavour; nested parsers keep the configured limits; for `matches` only the wiring: the arm and the "
                    "engine's Regex wrapper return exactly the regex engine's answer on exactly the value's bytes "
                    "(unanchored, whole value, asked once; absent value false), with the engine itself replaced by an "
                    "oracle. The regex engine, its byte-oriented configuration, size limits and the quoted-pattern "
                    "scanner are NOT covered."},
    "C13": {"design_ref": "5/C13", "technique": T,
            "text": "Solver-decided counter kernel: with_increased_nesting for every (depth, limit) in u16 x u16 keeps every setting, d-fold nesting accepted iff d <= limit for every limit (d <= 9; thorough attempt: 300 steps across 255/256), default 128, setters/getters. Whether each construct's call site increments is NOT covered."},
    "C15": {"design_ref": "5/C15", "technique": T,
            "text": "Solver-decided packed type forms: Type <-> CompoundType round trip for every layer string up to 32 layers "
                    "and every primitive, push/pop one step from any valid state (33rd layer refused), the checked conversion "
                    "used by deserialization, injectivity up to 8 layers, and the C-side CType packing against the engine's "
                    "(one step from any state; <= 3 layers end to end). JSON forms and scheme JSON are NOT covered (serde)."},
    "C17": {"design_ref": "5/C17", "technique": T,
            "text": 'Solver-decided: the built-in always/never matchers on every Int/Bool/Ip/Bytes value (found the AlwaysList defect), also through new_matcher() and after clear(); the list-name lexer on `$` + every two ASCII characters. The delegation of a compiled `x in $name` to the installed matcher is a thorough-tier attempt (undecided). Parse-time list lookup and matcher state across serde are NOT covered.'},
    "C20": {"design_ref": "5/C20", "technique": T,
            "text": 'Solver-decided last-error buffer: one append from ANY valid buffer state (inductive step) keeps exactly one terminating NUL, no interior NUL, content = old ++ buf with NUL->0x1A through both Write impls; clear / NULL-iff-empty; result constants (match panic -> panic status); C-side type packing. The wirefilter_* wrappers and the per-thread last-error replacement (thread-local: kani-compiler crash) are NOT covered.'},
}

NOT_APPLICABLE = {
    "C08": "ExecutionContext is Box<[Option<LhsValue>]> behind Arc<SchemeBuilder>: one set + one get on a 2-field context "
           "times out (840 s); nothing decidable remains",
    "C14": "serde_json on symbolic bytes, BTreeMap-backed maps and erased_serde trait objects are out of reach (DESIGN 3.2)",
    "C16": "two registrations of one name with symbolic kinds time out (hashbrown SSE2 group probing, Arc<str> keys, boxed "
           "definitions); lookups and the identifier lexer go through the same map",
    "C18": "Kani/CBMC as driven here has no thread model (Kani rejects concurrent code); the technique cannot apply",
    "C19": "defined by unwinding, the process panic hook and thread-locals across threads; Kani builds panic=abort, models a "
           "panic as a failed check and refuses to stub catch_unwind",
}

NOTES = ("Every check is `bin/check <ID>`: it copies /repo's working tree to a scratch directory outside /repo and /verif, "
         "injects the harness modules (cfg(kani)), runs one cargo-kani process per harness, requires cover witnesses and "
         "unwinding assertions, replays counterexamples natively and writes evidence/<ID>.json. Exit 0 = held within the "
         "stated bounds, 1 = violation reproduced natively (VIOLATION line), 2 = undecided (timeout, memory, tool crash, "
         "instrumentation no longer applies, counterexample not reproducible). Genuine defects found and repaired are "
         "listed in known_findings.json (fixed: lines).")
