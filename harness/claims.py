"""Claim texts for MANIFEST.json (see DESIGN.md section 5)."""

T = "Kani/CBMC bounded model checking of the real code (symbolic inputs, SAT), native replay of counterexamples"

CLAIMED = {
    "C01": {"design_ref": "5/C01", "technique": T,
            "text": "Solver-decided for ALL values within the bound, but only for the operator kernels: OrderingOp::matches/"
                    "matches_opt against the mathematical meaning for every pair of i64 and every operator, the per-family "
                    "IP ordering (mixed families unordered, only != holds) for every pair of addresses, and the mask table. "
                    "A wrong table entry or family rule is caught with a concrete counterexample; composition (closures, "
                    "nil default, connectives, precedence) is not covered because AST code is out of CBMC's reach here."},
    "C03": {"design_ref": "5/C03", "technique": T,
            "text": "Solver-decided kernels only: the per-call FunctionDefinitionContext (every accessor reaches the same "
                    "stored object, for every stored value) and ExactSizeChain (supplied arguments first, defaults after, "
                    "exact len) for all contents up to 2+2 items. Call compilation/map-each/concat are AST code and not covered."},
    "C04": {"design_ref": "5/C04", "technique": T,
            "text": "Solver-decided parameter-typing kernel: check_param / expect_val_type / kind checks agree with the "
                    "documented rule for every (declared type, actual type, kind, constant-vs-variable) over an 8-type pool "
                    "including nested containers. The lexers that apply the rules are not covered."},
    "C05": {"design_ref": "5/C05", "technique": T,
            "text": "Solver-decided span/slicing kernels on ALL ASCII inputs up to 3 characters (take, take_while, span, "
                    "skip_space, expect, complete) and ParseError::new on all inputs up to 2 (thorough 3-4) characters over "
                    "{LF, space, a} with every sub-span: no panic, line/column inside the input. Whole-parser totality is not covered."},
    "C06": {"design_ref": "5/C06", "technique": T,
            "text": "Solver-decided decoder kernels on ALL ASCII inputs within the bound: \\xHH accepted iff two hex digits "
                    "(this found the '+' sign defect), \\OOO iff three octal digits <= 377, byte separators, raw-string "
                    "delimiter scan up to 3 (thorough 5) characters. Other literal forms (integers, IPs, indexes) are not covered."},
    "C09": {"design_ref": "5/C09", "technique": T,
            "text": "Solver-decided set kernels at full machine width: RangeSet::from + contains equals 'some range contains x' "
                    "for every list of 3 i64 ranges (thorough 5), 3 IPv4 ranges, 2 IPv6 ranges (thorough 3) and every probe; "
                    "result is sorted and disjoint; empty list contains nothing. Longer lists, the compile-time family split and "
                    "byte-string sets are not covered."},
    "C10": {"design_ref": "5/C10", "technique": T,
            "text": "Solver-decided for the SIMD search the engine delegates to (sliceslice Avx2Searcher<[u8;N]>), for every "
                    "needle content, EVERY anchor position 1..N, every haystack content and length within small sizes "
                    "(N=2 hay<=5, N=3 hay<=6; thorough up to N=4 hay<=8 / N=2 hay<=10), against naive search; plus EmptySearcher. "
                    "The engine's own dispatch and 16/32-byte block boundaries are not covered."},
    "C11": {"design_ref": "5/C11", "technique": T,
            "text": "Solver-decided wildcard wiring: Wildcard::<false/true>::new + is_match agree with the documented semantics "
                    "for every pattern of 1-2 (thorough 3) bytes over {a,A,*,?,\\}, every value up to 2 (3) arbitrary bytes and "
                    "every star limit; rejection iff **, too many stars or bad escape. Regex matching is not covered."},
    "C13": {"design_ref": "5/C13", "technique": T,
            "text": "Solver-decided counter kernel only: with_increased_nesting for every (depth, limit) in u16 x u16, "
                    "d-fold nesting accepted iff d <= limit for every limit and d <= 9, default 128, setters/getters. "
                    "Whether each construct's call site increments is NOT covered."},
    "C15": {"design_ref": "5/C15", "technique": T,
            "text": "Solver-decided packed type form: Type <-> CompoundType round trip for every layer string up to 32 layers "
                    "and every primitive, push/pop one step from any valid state (33rd layer refused), injectivity up to 8 layers. "
                    "JSON forms and scheme JSON are not covered (serde is out of reach)."},
    "C17": {"design_ref": "5/C17", "technique": T,
            "text": "Solver-decided built-in matchers: always-list matches and never-list rejects every Int/Bool/Ip/Bytes value "
                    "(this found the AlwaysList defect), also through new_matcher() and after clear(). Delegation from compiled "
                    "filters, list-name lexing and serde are not covered."},
    "C20": {"design_ref": "5/C20", "technique": T,
            "text": "Solver-decided last-error buffer: one append from ANY valid state (inductive step, so sequences of any "
                    "length) keeps exactly one terminating NUL, no interior NUL, content = old ++ buf with NUL->0x1A, through "
                    "both Write impls; clear/NULL-iff-empty. The wirefilter_* wrappers are not covered."},
}

NOT_APPLICABLE = {
    "C02": "indexing/map-each/any-all operate on LhsValue arrays/maps and AST nodes; the smallest instance (one index into a "
           "flat array of <= 2 ints) exhausts 7.5 GB in CBMC, a 2x2 one times out (DESIGN 3.2); no data-only kernel remains",
    "C07": "subject is text -> AST -> JSON; symbolic text beyond 4 characters and AST/serde code are both out of CBMC's reach "
           "here (DESIGN 3.2); there is no data-only kernel",
    "C08": "ExecutionContext is Box<[Option<LhsValue>]> behind Arc<SchemeBuilder>: one set + one get on a 2-field context "
           "times out (840 s); nothing decidable remains",
    "C12": "pure AST walking: five formulations down to a root over two leaves did not decide (heap-allocated enum tags are "
           "not constant-folded by CBMC, so every match arm is entered at every node)",
    "C14": "serde_json on symbolic bytes, BTreeMap-backed maps and erased_serde trait objects are out of reach (DESIGN 3.2)",
    "C16": "two registrations of one name with symbolic kinds time out (hashbrown SSE2 group probing, Arc<str> keys, boxed "
           "definitions); lookups and the identifier lexer go through the same map",
    "C18": "Kani/CBMC as driven here has no thread model (Kani rejects concurrent code); the technique cannot apply",
    "C19": "defined by unwinding, the process panic hook and thread-locals across threads; Kani builds panic=abort, models a "
           "panic as a failed check and refuses to stub catch_unwind",
}

NOTES = ("Every check is `bin/check <ID>`: it copies /repo's working tree to a scratch directory outside /repo and /verif, "
         "injects the harness modules (cfg(kani)), runs one cargo-kani process per harness, requires cover witnesses and "
         "unwinding assertions, replays counterexamples natively and writes evidence/<ID>.json. Exit 0 = held within the "
         "stated bounds, 1 = violation reproduced natively (VIOLATION line), 2 = undecided (timeout, memory, tool crash, "
         "instrumentation no longer applies, counterexample not reproducible). Genuine defects found and repaired are "
         "listed in known_findings.json (fixed: lines).")
