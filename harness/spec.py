"""Per-property harness tables read by lib/wfk.py.

Each property: crate (engine|ffi), modules (host file -> injected harness file),
harnesses (name, mod, tier, core, timeout [s of wall for the cargo-kani process
excluding the build allowance], mem_gb, documentation fields for the evidence).
"""

COMMON_ASSUMPTIONS = [
    "Kani 0.68 codegen + std models, CBMC 6.11 + CaDiCaL are sound (trusted base)",
    "dev-profile semantics as modelled by Kani (overflow checks on); allocation never fails",
    "the `backtrace` crate is replaced by an empty stand-in in the scratch copy (only engine/src/panic.rs uses it)",
    "single-threaded execution",
    "bounded: every loop is unwound to the harness's #[kani::unwind] bound with unwinding assertions ON; "
    "inputs larger than the stated sizes are outside the claim",
]

PROPS = {}

PROPS["C01"] = {
    "crate": "engine",
    "modules": [
        {"mod": "verif_kani_c01_ops", "host": "engine/src/ast/field_expr.rs", "file": "engine/c01_ops.rs"},
        {"mod": "verif_kani_c07", "host": "engine/src/ast/logical_expr.rs", "file": "engine/c07_tokens.rs"},
        {"mod": "verif_kani_cmp", "host": "engine/src/scheme.rs", "file": "engine/cmp_arms.rs"},
        {"mod": "verif_kani_exec", "host": "engine/src/scheme.rs", "file": "engine/exec_kernels.rs"},
    ],
    "harnesses": [
        {"name": "c01_absent_value_default", "mod": "verif_kani_exec", "big": True, "tier": "thorough", "core": False, "timeout": 1800, "mem_gb": 40, "rss_gb": 30,
         "encodes": ["IndexExpr::compile_with", "IndexExpr::compile_one_with (closure)", "ExecutionContext::new", "set_field_value", "get_field_value_unchecked", "CompiledOneExpr::execute"],
         "symbolic": "field present/absent, value i64, default bool, comparator answer bool", "bound": "one optional Int field, unwind 5", "oracle": "absent => default and comparator not called; present => comparator's answer on that value", "min_covers": 3,
         "stubs": ["comparator: harness probe implementing Compare"]},
        {"name": "c01_cmp_int", "mod": "verif_kani_cmp", "big": True, "timeout": 1200, "mem_gb": 24, "rss_gb": 6,
         "encodes": ["ComparisonExpr::compile_with_compiler (real match on the operator, comparator construction, nil default) with IndexExpr::compile_with stubbed by the harness continuation"],
         "symbolic": "lhs i64, literal i64, operator (6), nil-not-equal setting", "bound": "loop-free", "oracle": "operator's mathematical meaning on i64; absent lhs: false except != = setting", "min_covers": 4,
         "stubs": ["IndexExpr::compile_with -> harness continuation applying the built comparator to a symbolic value", "rand::rngs::thread::rng -> unreachable"]},
        {"name": "c01_cmp_bitwise_and", "mod": "verif_kani_cmp", "big": True, "timeout": 1200, "mem_gb": 24, "rss_gb": 6,
         "encodes": ["ComparisonExpr::compile_with_compiler (real match on the operator, comparator construction, nil default) with IndexExpr::compile_with stubbed by the harness continuation"],
         "symbolic": "lhs i64, literal i64", "bound": "loop-free", "oracle": "value & rhs != 0; absent: false", "min_covers": 2,
         "stubs": ["IndexExpr::compile_with -> harness continuation applying the built comparator to a symbolic value", "rand::rngs::thread::rng -> unreachable"]},
        {"name": "c01_cmp_is_true", "mod": "verif_kani_cmp", "big": True, "timeout": 1200, "mem_gb": 24, "rss_gb": 6,
         "encodes": ["ComparisonExpr::compile_with_compiler (real match on the operator, comparator construction, nil default) with IndexExpr::compile_with stubbed by the harness continuation"],
         "symbolic": "bool value", "bound": "loop-free", "oracle": "the field's value; absent: false", "min_covers": 2,
         "stubs": ["IndexExpr::compile_with -> harness continuation applying the built comparator to a symbolic value", "rand::rngs::thread::rng -> unreachable"]},
        {"name": "c01_cmp_ip", "mod": "verif_kani_cmp", "big": True, "timeout": 1200, "mem_gb": 24, "rss_gb": 6,
         "encodes": ["ComparisonExpr::compile_with_compiler (real match on the operator, comparator construction, nil default) with IndexExpr::compile_with stubbed by the harness continuation"],
         "symbolic": "two addresses (family + u128), operator, setting", "bound": "loop-free", "oracle": "per-family numeric order; mixed: only != holds; absent: != = setting", "min_covers": 4,
         "stubs": ["IndexExpr::compile_with -> harness continuation applying the built comparator to a symbolic value", "rand::rngs::thread::rng -> unreachable"]},
        {"name": "c01_cmp_bytes_r0", "mod": "verif_kani_cmp", "big": True, "timeout": 1200, "mem_gb": 24, "rss_gb": 6,
         "encodes": ["ComparisonExpr::compile_with_compiler (real match on the operator, comparator construction, nil default) with IndexExpr::compile_with stubbed by the harness continuation"],
         "symbolic": "lhs <= 3 arbitrary bytes vs empty literal, operator, setting", "bound": "lhs <= 3, unwind 6", "oracle": "lexicographic byte order", "min_covers": 4,
         "stubs": ["IndexExpr::compile_with -> harness continuation applying the built comparator to a symbolic value", "rand::rngs::thread::rng -> unreachable"]},
        {"name": "c01_cmp_bytes_r1", "mod": "verif_kani_cmp", "big": True, "timeout": 1200, "mem_gb": 24, "rss_gb": 6,
         "encodes": ["ComparisonExpr::compile_with_compiler (real match on the operator, comparator construction, nil default) with IndexExpr::compile_with stubbed by the harness continuation"],
         "symbolic": "lhs <= 3 bytes vs 1-byte literal", "bound": "lhs <= 3, unwind 6", "oracle": "lexicographic byte order", "min_covers": 4,
         "stubs": ["IndexExpr::compile_with -> harness continuation applying the built comparator to a symbolic value", "rand::rngs::thread::rng -> unreachable"]},
        {"name": "c01_cmp_bytes_r2", "mod": "verif_kani_cmp", "big": True, "timeout": 1200, "mem_gb": 24, "rss_gb": 6,
         "encodes": ["ComparisonExpr::compile_with_compiler (real match on the operator, comparator construction, nil default) with IndexExpr::compile_with stubbed by the harness continuation"],
         "symbolic": "lhs <= 3 bytes vs 2-byte literal", "bound": "lhs <= 3, unwind 6", "oracle": "lexicographic byte order", "min_covers": 4,
         "stubs": ["IndexExpr::compile_with -> harness continuation applying the built comparator to a symbolic value", "rand::rngs::thread::rng -> unreachable"]},
        {"name": "c01_ordering_table", "mod": "verif_kani_c01_ops", "timeout": 300, "mem_gb": 6,
         "encodes": ["ast::field_expr::OrderingOp::matches", "ast::field_expr::OrderingOp::matches_opt"],
         "symbolic": "two i64 (full width), operator (6)",
         "bound": "loop-free", "oracle": "operator's mathematical meaning on (a<b, a==b, a>b); None => only !=",
         "min_covers": 3},
        {"name": "c01_ip_strict_cmp", "mod": "verif_kani_c01_ops", "timeout": 300, "mem_gb": 6,
         "encodes": ["<IpAddr as StrictPartialOrd>::strict_partial_cmp", "OrderingOp::matches_opt"],
         "symbolic": "two addresses (family bit + u128), operator (6)",
         "bound": "loop-free (Ipv6Addr::cmp on 16 bytes)", "oracle": "same family => numeric order; mixed => only != holds",
         "min_covers": 5},
        {"name": "c01_mask_constants", "mod": "verif_kani_c01_ops", "timeout": 300, "mem_gb": 6,
         "encodes": ["OrderingOp discriminants", "LESS/GREATER/EQUAL flags"],
         "symbolic": "none (constant table)", "bound": "loop-free", "oracle": "documented mask per operator",
         "min_covers": 1},
        {"name": "c01_precedence_order", "mod": "verif_kani_c07", "timeout": 300, "mem_gb": 6,
         "encodes": ["LogicalOp: PartialOrd/Ord (derived)", "Option<LogicalOp> ordering used by lex_more_with_precedence"],
         "symbolic": "two operators (3x3)", "bound": "loop-free", "oracle": "or < xor < and; None below every operator",
         "min_covers": 1},
    ],
    "not_covered": "per-type closures generated by gen_ordering!, nil default wiring, not/and/or/xor composition, "
                   "parser precedence: AST construction/compilation is outside what CBMC decides here (DESIGN 3.2)",
}

PROPS["C09"] = {
    "crate": "engine",
    "modules": [
        {"mod": "verif_kani_c09", "host": "engine/src/range_set.rs", "file": "engine/c09_rangeset.rs"},
        {"mod": "verif_kani_c09_ip", "host": "engine/src/rhs_types/ip.rs", "file": "engine/c09_ip.rs"},
        {"mod": "verif_kani_cmp", "host": "engine/src/scheme.rs", "file": "engine/cmp_arms.rs"},
    ],
    "harnesses": [
        {"name": "c09_oneof_int", "mod": "verif_kani_cmp", "big": True, "timeout": 1200, "mem_gb": 24, "rss_gb": 6,
         "encodes": ["ComparisonExpr::compile_with_compiler (real match on the operator, comparator construction, nil default) with IndexExpr::compile_with stubbed by the harness continuation"],
         "symbolic": "probe i64; list {a0..a1, b0, c0..c1} full i64", "bound": "3 items, unwind 7", "oracle": "some item equals or contains x; absent: false", "min_covers": 3,
         "stubs": ["IndexExpr::compile_with -> harness continuation applying the built comparator to a symbolic value", "rand::rngs::thread::rng -> unreachable"]},
        {"name": "c09_oneof_int_empty", "mod": "verif_kani_cmp", "big": True, "timeout": 1200, "mem_gb": 24, "rss_gb": 6,
         "encodes": ["ComparisonExpr::compile_with_compiler (real match on the operator, comparator construction, nil default) with IndexExpr::compile_with stubbed by the harness continuation"],
         "symbolic": "probe i64, empty list", "bound": "0 items", "oracle": "false", "min_covers": 1,
         "stubs": ["IndexExpr::compile_with -> harness continuation applying the built comparator to a symbolic value", "rand::rngs::thread::rng -> unreachable"]},
        {"name": "c09_oneof_ip", "mod": "verif_kani_cmp", "big": True, "tier": "thorough", "core": False, "timeout": 1800, "mem_gb": 40, "rss_gb": 20, "unwindset": [["memcmp", 18], ["chaining_impl", 10]],
         "encodes": ["ComparisonExpr::compile_with_compiler (real match on the operator, comparator construction, nil default) with IndexExpr::compile_with stubbed by the harness continuation"],
         "symbolic": "probe (family + u128); list {v4 CIDR a/len, explicit v6 range, single v4 address}", "bound": "3 items, unwind 18", "oracle": "membership in an item of the same family only; absent: false", "min_covers": 5,
         "stubs": ["IndexExpr::compile_with -> harness continuation applying the built comparator to a symbolic value", "rand::rngs::thread::rng -> unreachable"]},

        {"name": "c09_rangeset_i64_n3", "mod": "verif_kani_c09", "timeout": 600, "mem_gb": 8,
         "encodes": ["RangeSet::<i64>::from(Vec)", "RangeSet::contains", "slice::sort_unstable_by_key", "Vec::dedup_by", "slice::binary_search_by"],
         "symbolic": "3 ranges (start<=end) + probe, full i64", "bound": "3 ranges, unwind 6",
         "oracle": "exists i: start_i <= x <= end_i; result sorted & disjoint", "min_covers": 5},
        {"name": "c09_rangeset_empty", "mod": "verif_kani_c09", "timeout": 300, "mem_gb": 6,
         "encodes": ["RangeSet::<i64>::from(Vec::new())", "RangeSet::contains"],
         "symbolic": "probe i64", "bound": "0 ranges", "oracle": "false", "min_covers": 1},
        {"name": "c09_rangeset_from_iter_n2", "mod": "verif_kani_c09", "timeout": 600, "mem_gb": 8,
         "encodes": ["<RangeSet<i64> as FromIterator>::from_iter"],
         "symbolic": "2 ranges + probe, full i64", "bound": "2 ranges, unwind 5",
         "oracle": "membership in either range", "min_covers": 2},
        {"name": "c09_rangeset_v4_n3", "mod": "verif_kani_c09", "timeout": 900, "mem_gb": 8,
         "encodes": ["RangeSet::<Ipv4Addr>::from", "RangeSet::contains"],
         "symbolic": "3 IPv4 ranges + probe, full u32", "bound": "3 ranges, unwind 6",
         "oracle": "exists i: start_i <= x <= end_i", "min_covers": 5},
        {"name": "c09_rangeset_v6_n2", "mod": "verif_kani_c09", "timeout": 1200, "mem_gb": 16, "rss_gb": 8, "unwindset": [["memcmp", 18], ["chaining_impl", 10]],
         "encodes": ["RangeSet::<Ipv6Addr>::from", "RangeSet::contains"],
         "symbolic": "2 IPv6 ranges + probe, full u128", "bound": "2 ranges, unwind 5 (memcmp 18, slice-compare 10)",
         "oracle": "exists i: start_i <= x <= end_i", "min_covers": 5},
        {"name": "c09_cidr_v4_bounds", "mod": "verif_kani_c09_ip", "timeout": 600, "mem_gb": 8,
         "encodes": ["<ExplicitIpRange as From<IpRange>>::from", "From<IpCidr>", "From<Ipv4Cidr>", "cidr::Ipv4Cidr::new/first_address/last_address"],
         "symbolic": "u32 address, prefix 0..=32, probe u32", "bound": "loop-free",
         "oracle": "x in block iff x & mask == a; host bits set => not constructible", "min_covers": 3},
        {"name": "c09_cidr_v6_bounds", "mod": "verif_kani_c09_ip", "timeout": 600, "mem_gb": 8,
         "encodes": ["<ExplicitIpRange as From<IpRange>>::from", "From<Ipv6Cidr>", "cidr::Ipv6Cidr::new/first_address/last_address"],
         "symbolic": "u128 address, prefix 0..=128, probe u128", "bound": "loop-free",
         "oracle": "x in block iff x & mask == a", "min_covers": 3},
        {"name": "c09_addr_and_explicit_items", "mod": "verif_kani_c09_ip", "timeout": 600, "mem_gb": 8,
         "encodes": ["<IpRange as From<IpAddr>>::from", "<ExplicitIpRange as From<IpRange>>::from", "From<IpAddr> for ExplicitIpRange"],
         "symbolic": "address (family + u128), explicit v4 range", "bound": "loop-free",
         "oracle": "single address -> one-address range of its family; explicit range unchanged", "min_covers": 2},
        {"name": "c09_rangeset_i64_n4", "mod": "verif_kani_c09", "tier": "thorough", "core": False, "timeout": 2400, "mem_gb": 16,
         "encodes": ["RangeSet::<i64>::from(Vec)", "RangeSet::contains"],
         "symbolic": "4 ranges + probe, full i64", "bound": "4 ranges, unwind 7",
         "oracle": "exists i: start_i <= x <= end_i", "min_covers": 5},
        {"name": "c09_rangeset_i64_n5", "mod": "verif_kani_c09", "tier": "thorough", "core": False, "timeout": 2400, "mem_gb": 16,
         "encodes": ["RangeSet::<i64>::from(Vec)", "RangeSet::contains"],
         "symbolic": "5 ranges + probe, full i64", "bound": "5 ranges, unwind 8",
         "oracle": "exists i: start_i <= x <= end_i", "min_covers": 5},
        {"name": "c09_rangeset_v6_n3", "mod": "verif_kani_c09", "tier": "thorough", "core": False, "timeout": 2400, "mem_gb": 16,
         "encodes": ["RangeSet::<Ipv6Addr>::from", "RangeSet::contains"],
         "symbolic": "3 IPv6 ranges + probe, full u128", "bound": "3 ranges, unwind 18",
         "oracle": "exists i: start_i <= x <= end_i", "min_covers": 5},
    ],
    "not_covered": "lists longer than the stated sizes, mixed-family lists of several items and byte-string sets "
                   "(thorough-tier attempts, undecided), list text",
}

PROPS["C17"] = {
    "crate": "engine",
    "modules": [
        {"mod": "verif_kani_c17", "host": "engine/src/list_matcher.rs", "file": "engine/c17_lists.rs"},
        {"mod": "verif_kani_cmp", "host": "engine/src/scheme.rs", "file": "engine/cmp_arms.rs"},
    ],
    "harnesses": [
        {"name": "c17_inlist_delegation", "mod": "verif_kani_cmp", "big": True, "tier": "thorough", "core": False, "timeout": 1200, "mem_gb": 24, "rss_gb": 6,
         "encodes": ["ComparisonExpr::compile_with_compiler (real match on the operator, comparator construction, nil default) with IndexExpr::compile_with stubbed by the harness continuation"],
         "symbolic": "value i64, matcher answer bool; scheme with two lists (Ip, Int)", "bound": "unwind 5", "oracle": "answer = installed matcher's answer, asked once with the list's matcher, the name and the value; absent: false", "min_covers": 2,
         "stubs": ["IndexExpr::compile_with -> harness continuation applying the built comparator to a symbolic value", "rand::rngs::thread::rng -> unreachable"]},

        {"name": "c17_builtin_lists", "mod": "verif_kani_c17", "timeout": 300, "mem_gb": 6,
         "encodes": ["AlwaysListMatcher::match_value", "NeverListMatcher::match_value"],
         "symbolic": "value: Int(i64) | Bool | Ip(v4 u32 | v6 u128) | Bytes(len<=2); name from {'', 'a', 'x.y_0'}",
         "bound": "loop-free", "oracle": "always => true, never => false", "min_covers": 3},
        {"name": "c17_builtin_definitions", "mod": "verif_kani_c17", "timeout": 300, "mem_gb": 6,
         "encodes": ["AlwaysList::new_matcher", "NeverList::new_matcher", "ListMatcher::clear"],
         "symbolic": "Int(i64) value", "bound": "loop-free",
         "oracle": "always => true, never => false, unchanged by clear()", "min_covers": 1},
    ],
    "not_covered": "delegation of `x in $name` to the installed matcher (thorough-tier attempt, undecided), per-type list "
                   "lookup at parse time, matcher state across clear/serde (ExecutionContext / serde are outside what CBMC decides here)",
}

PROPS["C15"] = {
    "crate": "engine",
    "modules": [
        {"mod": "verif_kani_c15", "host": "engine/src/types.rs", "file": "engine/c15_types.rs"},
        {"mod": "verif_kani_c20k", "host": "ffi/src/lib.rs", "file": "ffi/c20_ffi_kernels.rs", "crate": "ffi"},
    ],
    "harnesses": [
        {"name": "c15_compound_roundtrip", "mod": "verif_kani_c15", "timeout": 900, "mem_gb": 8,
         "encodes": ["CompoundType::from_type", "CompoundType::into_type", "CompoundType::push", "CompoundType::pop", "Type::next", "Type: PartialEq"],
         "symbolic": "layer string u32, length 0..=32, primitive (4)", "bound": "<= 32 layers, unwind 34",
         "oracle": "build layer by layer, peel back: same layers in order, same primitive", "min_covers": 3},
        {"name": "c15_push_pop_step", "mod": "verif_kani_c15", "timeout": 300, "mem_gb": 6,
         "encodes": ["CompoundType::push", "CompoundType::pop"],
         "symbolic": "any valid packed value (layers u32, len 0..=32, primitive), layer kind",
         "bound": "loop-free (one step from any valid state)",
         "oracle": "pop(push(x)) == x; push is None exactly at 32 layers; Array != Map", "min_covers": 3},
        {"name": "c15_packing_injective", "mod": "verif_kani_c15", "timeout": 900, "mem_gb": 8,
         "encodes": ["CompoundType::from_type", "Type: PartialEq", "CompoundType: PartialEq"],
         "symbolic": "two descriptions (<= 8 layers each, primitive)", "bound": "<= 8 layers, unwind 10",
         "oracle": "types equal iff descriptions equal", "min_covers": 2},
        {"name": "c15_checked_from_type", "mod": "verif_kani_c15", "timeout": 300, "mem_gb": 6,
         "encodes": ["CompoundType::checked_from_type (used by CompoundType::deserialize)", "CompoundType::from_type", "into_type"],
         "symbolic": "any valid packed inner type (layers u32, len 0..=32, primitive), outer constructor",
         "bound": "loop-free", "oracle": "None exactly for a container over a 32-layer type; otherwise equals from_type and is invertible", "min_covers": 3},
        {"name": "c15_ctype_small", "mod": "verif_kani_c20k", "timeout": 900, "mem_gb": 10,
         "encodes": ["wirefilter_create_primitive_type", "wirefilter_create_array_type", "wirefilter_create_map_type",
                     "<Type as From<CType>>::from", "<CType as From<Type>>::from", "CType::push", "CType::pop"],
         "symbolic": "primitive (4), <= 3 layers (layer string)", "bound": "<= 3 layers, unwind 6",
         "oracle": "C type built layer by layer converts to the same engine type built the same way, and back", "min_covers": 2},
        {"name": "c15_ctype_step", "mod": "verif_kani_c20k", "timeout": 300, "mem_gb": 6,
         "encodes": ["CType::push", "CType::pop"], "symbolic": "any CType with len < 32 (layers u32), layer kind",
         "bound": "loop-free", "oracle": "pop(push(x)) == x; same bit layout as CompoundType", "min_covers": 2},
    ],
    "not_covered": "the JSON form (serde), scheme JSON round trip, duplicate field names, and the behaviour of "
                   "JSON descriptors deeper than 32 layers (see known finding F3)",
}

PROPS["C13"] = {
    "crate": "engine",
    "modules": [
        {"mod": "verif_kani_c13", "host": "engine/src/ast/parse.rs", "file": "engine/c13_nesting.rs"},
    ],
    "harnesses": [
        {"name": "c13_nesting_step", "mod": "verif_kani_c13", "timeout": 300, "mem_gb": 6,
         "encodes": ["FilterParser::with_increased_nesting", "FilterParser::new", "set_max_nesting_depth", "max_nesting_depth", "ParserSettings::default"],
         "symbolic": "current depth u16 x limit u16", "bound": "loop-free",
         "oracle": "Err(limit) iff current >= limit, else same parser with depth+1; default 128", "min_covers": 3},
        {"name": "c13_nesting_chain", "mod": "verif_kani_c13", "timeout": 300, "mem_gb": 6,
         "encodes": ["FilterParser::with_increased_nesting", "FilterParser::with_settings"],
         "symbolic": "limit u16, d <= 9 nested constructs", "bound": "d <= 9, unwind 11",
         "oracle": "accepted iff d <= limit", "min_covers": 3},
        {"name": "c13_nesting_chain_deep", "mod": "verif_kani_c13", "tier": "thorough", "core": False, "timeout": 2400, "mem_gb": 16,
         "encodes": ["FilterParser::with_increased_nesting", "FilterParser::with_settings"],
         "symbolic": "limit 0..=300, 300 nested constructs", "bound": "300 steps, unwind 303",
         "oracle": "exactly `limit` constructs accepted before the first rejection", "min_covers": 3},
        {"name": "c13_settings_accessors", "mod": "verif_kani_c13", "timeout": 300, "mem_gb": 6,
         "encodes": ["ParserSettings::default", "regex_set/get_*", "wildcard_set/get_star_limit"],
         "symbolic": "three usize", "bound": "loop-free", "oracle": "getter(setter(x)) == x", "min_covers": 1},
    ],
    "not_covered": "that every nesting construct's call site goes through with_increased_nesting (a construct that "
                   "forgets to increment is NOT detected), and the recursion bound of compile/execute/serialize/drop",
}

PROPS["C06"] = {
    "crate": "engine",
    "modules": [
        {"mod": "verif_kani_c06", "host": "engine/src/rhs_types/bytes.rs", "file": "engine/c06_bytes.rs"},
    ],
    "harnesses": [
        {"name": "c06_escape_hex", "mod": "verif_kani_c06", "timeout": 900, "mem_gb": 10,
         "encodes": ["rhs_types::bytes::hex_byte", "fixed_byte", "lex::take", "u8::from_str_radix"],
         "symbolic": "<= 3 ASCII characters (any of 128 values each)", "bound": "3 chars, unwind 5",
         "oracle": "Ok(v) iff first two chars are hex digits, v positional value, consumes exactly 2", "min_covers": 4},
        {"name": "c06_escape_oct", "mod": "verif_kani_c06", "timeout": 900, "mem_gb": 10,
         "encodes": ["rhs_types::bytes::oct_byte", "fixed_byte", "lex::take", "u8::from_str_radix"],
         "symbolic": "<= 4 ASCII characters", "bound": "4 chars, unwind 6",
         "oracle": "Ok(v) iff three octal digits with value <= 0o377", "min_covers": 4},
        {"name": "c06_byte_separator", "mod": "verif_kani_c06", "timeout": 600, "mem_gb": 8,
         "encodes": ["<ByteSeparator as Lex>::lex"],
         "symbolic": "<= 2 ASCII characters", "bound": "2 chars, unwind 4", "oracle": "Ok iff first char in {:,-,.}", "min_covers": 2},
        {"name": "c06_raw_string_n3", "mod": "verif_kani_c06", "timeout": 900, "mem_gb": 12,
         "encodes": ["rhs_types::bytes::lex_raw_string_as_str"],
         "symbolic": "<= 3 characters over {#,\",a}", "bound": "3 chars, unwind 6",
         "oracle": "k leading #, quote, body up to first quote followed by >= k #, rest after exactly k", "min_covers": 3},
        {"name": "c06_raw_string_n4", "mod": "verif_kani_c06", "tier": "thorough", "core": False, "timeout": 1800, "mem_gb": 20,
         "encodes": ["rhs_types::bytes::lex_raw_string_as_str"],
         "symbolic": "<= 4 characters over {#,\",a}", "bound": "4 chars, unwind 7",
         "oracle": "same", "min_covers": 3},
        {"name": "c06_raw_string_n5", "mod": "verif_kani_c06", "tier": "thorough", "core": False, "timeout": 2400, "mem_gb": 28,
         "encodes": ["rhs_types::bytes::lex_raw_string_as_str"],
         "symbolic": "<= 5 characters over {#,\",a}", "bound": "5 chars, unwind 8",
         "oracle": "same", "min_covers": 3},
    ],
    "assumptions": ["text inputs are ASCII (every byte < 0x80); non-ASCII text is outside the claim"],
    "not_covered": "digit text in three radixes and address/CIDR text (the leaf lexers are stubbed in the rule harnesses), "
                   "quoted strings as a whole, hex-pair strings beyond one pair, map-key literals, 'consumes exactly the "
                   "literal' beyond these kernels",
}

PROPS["C05"] = {
    "crate": "engine",
    "modules": [
        {"mod": "verif_kani_c05_lex", "host": "engine/src/lex.rs", "file": "engine/c05_lex.rs"},
        {"mod": "verif_kani_c05_pe", "host": "engine/src/ast/parse.rs", "file": "engine/c05_parse_error.rs"},
    ],
    "harnesses": [
        {"name": "c05_take", "mod": "verif_kani_c05_lex", "timeout": 900, "mem_gb": 10,
         "encodes": ["lex::take", "lex::span"], "symbolic": "<= 3 ASCII chars, count 0..=4", "bound": "3 chars, unwind 6",
         "oracle": "Ok iff enough chars; consumed ++ rest == input; error counts exact", "min_covers": 3},
        {"name": "c05_take_while", "mod": "verif_kani_c05_lex", "timeout": 900, "mem_gb": 10,
         "encodes": ["lex::take_while", "lex::span"], "symbolic": "<= 3 ASCII chars", "bound": "3 chars, unwind 6",
         "oracle": "longest prefix of hex digits; error iff empty", "min_covers": 3},
        {"name": "c05_span_skip_expect", "mod": "verif_kani_c05_lex", "timeout": 900, "mem_gb": 10,
         "encodes": ["lex::skip_space", "lex::span", "lex::expect", "lex::complete"],
         "symbolic": "<= 3 ASCII chars", "bound": "3 chars, unwind 6",
         "oracle": "strips exactly leading space/CR/LF; expect strips exactly its literal; complete accepts only empty rest", "min_covers": 3},
        {"name": "c05_parse_error_n2", "mod": "verif_kani_c05_pe", "timeout": 1200, "mem_gb": 16, "rss_gb": 12,
         "encodes": ["ParseError::new"], "symbolic": "<= 2 chars over {LF, space, a}, span = any subslice", "bound": "2 chars, unwind 5",
         "oracle": "line = #LF before span; column = offset in that line; column range inside the line; never panics", "min_covers": 3},
        {"name": "c05_parse_error_n3", "mod": "verif_kani_c05_pe", "tier": "thorough", "core": False, "timeout": 1800, "mem_gb": 28, "rss_gb": 24,
         "encodes": ["ParseError::new"], "symbolic": "<= 3 chars over {LF, space, a}, any subslice", "bound": "3 chars, unwind 6",
         "oracle": "same", "min_covers": 3},
        {"name": "c05_parse_error_n4", "mod": "verif_kani_c05_pe", "tier": "thorough", "core": False, "timeout": 2400, "mem_gb": 40, "rss_gb": 36,
         "encodes": ["ParseError::new"], "symbolic": "<= 4 chars over {LF, space, a}, any subslice", "bound": "4 chars, unwind 7",
         "oracle": "same", "min_covers": 3},
    ],
    "assumptions": ["text inputs are ASCII (every byte < 0x80)"],
    "not_covered": "the composed parser on whole filters, stack depth on long inputs, Display formatting, multi-byte "
                   "characters beyond the two kernels that take them (lexer helpers, invalid-escape span), the IP/regex sub-lexers",
}

PROPS["C04"] = {
    "crate": "engine",
    "modules": [
        {"mod": "verif_kani_c04", "host": "engine/src/functions/mod.rs", "file": "engine/c04_params.rs"},
    ],
    "harnesses": [
        {"name": "c04_param_typing", "mod": "verif_kani_c04", "timeout": 900, "mem_gb": 10,
         "encodes": ["SimpleFunctionDefinition::check_param", "SimpleFunctionArgKind::expect", "FunctionArgKind::expect",
                     "FunctionParam::expect_val_type", "FunctionParam::arg_kind", "arg_count"],
         "symbolic": "declared/actual type from an 8-type pool, declared kind (3), constant vs variable argument",
         "bound": "1 mandatory slot, unwind 4", "oracle": "Ok iff kind admitted and full types equal; error names the right mismatch", "min_covers": 5},
        {"name": "c04_expect_val_type", "mod": "verif_kani_c04", "timeout": 900, "mem_gb": 10,
         "encodes": ["FunctionParam::expect_val_type"], "symbolic": "actual/expected type from the pool, loose Array/Map/exact",
         "bound": "1 expectation, unwind 4", "oracle": "loose Array/Map match the outer layer; exact needs equality", "min_covers": 3},
        {"name": "c04_arg_kind_expect", "mod": "verif_kani_c04", "timeout": 300, "mem_gb": 6,
         "encodes": ["FunctionArgKind::expect", "FunctionParam::as_constant", "as_variable"], "symbolic": "two kinds",
         "bound": "loop-free", "oracle": "Ok iff equal", "min_covers": 1},
    ],
    "not_covered": "the lexers applying the rules (operator/left-type matrix, index kinds, logical operand kinds, "
                   "quantifier arguments, [*] only first) and panic-freedom of compile/execute that depends on them",
}

PROPS["C03"] = {
    "crate": "engine",
    "modules": [
        {"mod": "verif_kani_c04", "host": "engine/src/functions/mod.rs", "file": "engine/c04_params.rs"},
    ],
    "harnesses": [
        {"name": "c03_definition_context", "mod": "verif_kani_c04", "timeout": 600, "mem_gb": 8,
         "encodes": ["FunctionDefinitionContext::new", "as_any_ref", "as_any_mut", "downcast_ref", "downcast_mut", "downcast", "into_any", "clone"],
         "symbolic": "stored u32, written u32", "bound": "loop-free",
         "oracle": "every accessor reaches the same stored object; writes through one are visible through the others", "min_covers": 1},
        {"name": "c03_exact_size_chain", "mod": "verif_kani_c04", "timeout": 600, "mem_gb": 8,
         "encodes": ["ExactSizeChain::new", "next", "len"], "symbolic": "two sequences of <= 2 items",
         "bound": "<= 2+2 items, unwind 7", "oracle": "supplied items first then defaults; len() exact at each step", "min_covers": 2},
    ],
    "not_covered": "argument compilation order, map-each application, memoisation, concat, omitted optional parameters "
                   "through FunctionCallExpr (AST code)",
}

PROPS["C10"] = {
    "crate": "engine",
    "modules": [
        {"mod": "verif_kani_c10", "host": "engine/src/searcher.rs", "file": "engine/c10_search.rs"},
    ],
    "harnesses": [
        {"name": "c10_simd_n2_h5", "mod": "verif_kani_c10", "timeout": 900, "mem_gb": 10,
         "encodes": ["sliceslice::x86::Avx2Searcher<[u8;2]>::with_position", "search_in", "vector_search_in", "vector_search_in_chunk"],
         "symbolic": "needle 2 bytes, anchor 1..2, haystack <= 5 bytes + length", "bound": "haystack <= 5, unwind 8",
         "oracle": "naive window search", "min_covers": 4},
        {"name": "c10_simd_n3_h6", "mod": "verif_kani_c10", "timeout": 1200, "mem_gb": 12,
         "encodes": ["sliceslice::x86::Avx2Searcher<[u8;3]>::with_position", "search_in"],
         "symbolic": "needle 3 bytes, anchor 1..3, haystack <= 6 bytes + length", "bound": "haystack <= 6, unwind 9",
         "oracle": "naive window search", "min_covers": 4},
        {"name": "c10_empty_pattern", "mod": "verif_kani_c10", "timeout": 300, "mem_gb": 6,
         "encodes": ["<EmptySearcher as Compare>::compare"], "symbolic": "bytes value of length <= 2",
         "bound": "loop-free", "oracle": "true", "min_covers": 1},
        {"name": "c10_simd_n2_h6", "mod": "verif_kani_c10", "tier": "thorough", "core": False, "timeout": 1800, "mem_gb": 16,
         "encodes": ["Avx2Searcher<[u8;2]>"], "symbolic": "needle 2, anchor, haystack <= 6", "bound": "haystack <= 6, unwind 9",
         "oracle": "naive window search", "min_covers": 4},
        {"name": "c10_simd_n3_h8", "mod": "verif_kani_c10", "tier": "thorough", "core": False, "timeout": 2400, "mem_gb": 16,
         "encodes": ["Avx2Searcher<[u8;3]>"], "symbolic": "needle 3, anchor, haystack <= 8", "bound": "haystack <= 8, unwind 11",
         "oracle": "naive window search", "min_covers": 4},
        {"name": "c10_simd_n4_h8", "mod": "verif_kani_c10", "tier": "thorough", "core": False, "timeout": 2400, "mem_gb": 16,
         "encodes": ["Avx2Searcher<[u8;4]>"], "symbolic": "needle 4, anchor, haystack <= 8", "bound": "haystack <= 8, unwind 11",
         "oracle": "naive window search", "min_covers": 4},
        {"name": "c10_simd_n2_h10", "mod": "verif_kani_c10", "tier": "thorough", "core": False, "timeout": 2400, "mem_gb": 16,
         "encodes": ["Avx2Searcher<[u8;2]>"], "symbolic": "needle 2, anchor, haystack <= 10", "bound": "haystack <= 10, unwind 13",
         "oracle": "naive window search", "min_covers": 4},
    ],
    "not_covered": "16/32-byte block boundaries, needles > 4 in haystacks longer than the needle, the boxed searcher "
                   "(> 16 bytes), the USE_AVX2 latch itself, memchr::memchr's own implementation (replaced by its contract) and "
                   "memmem's vector paths for values >= 16 bytes (cpuid is not executable under Kani)",
}

PROPS["C11"] = {
    "crate": "engine",
    "modules": [
        {"mod": "verif_kani_c11", "host": "engine/src/rhs_types/wildcard.rs", "file": "engine/c11_wildcard.rs"},
        {"mod": "verif_kani_cmp", "host": "engine/src/scheme.rs", "file": "engine/cmp_arms.rs"},
    ],
    "harnesses": [
        {"name": "c11_wildcard_arm_ci", "mod": "verif_kani_cmp", "big": True, "timeout": 1200, "mem_gb": 24, "rss_gb": 6,
         "encodes": ["ComparisonExpr::compile_with_compiler (real match on the operator, comparator construction, nil default) with IndexExpr::compile_with stubbed by the harness continuation"],
         "symbolic": "value <= 2 bytes, pattern a*, `wildcard` node", "bound": "unwind 8", "oracle": "Wildcard arm folds ASCII case, StrictWildcard arm does not; absent: false", "min_covers": 3,
         "stubs": ["IndexExpr::compile_with -> harness continuation applying the built comparator to a symbolic value", "rand::rngs::thread::rng -> unreachable"]},
        {"name": "c11_wildcard_arm_strict", "mod": "verif_kani_cmp", "big": True, "timeout": 1200, "mem_gb": 24, "rss_gb": 6,
         "encodes": ["ComparisonExpr::compile_with_compiler (real match on the operator, comparator construction, nil default) with IndexExpr::compile_with stubbed by the harness continuation"],
         "symbolic": "value <= 2 bytes, pattern a*, `strict wildcard` node", "bound": "unwind 8", "oracle": "Wildcard arm folds ASCII case, StrictWildcard arm does not; absent: false", "min_covers": 3,
         "stubs": ["IndexExpr::compile_with -> harness continuation applying the built comparator to a symbolic value", "rand::rngs::thread::rng -> unreachable"]},

        {"name": "c11_wildcard_ci_p1", "mod": "verif_kani_c11", "timeout": 1200, "mem_gb": 12,
         "encodes": ["Wildcard::<false>::new", "validate_wildcard", "has_double_star", "Wildcard::is_match", "wildcard::WildcardBuilder::build", "wildcard::Wildcard::is_match"],
         "symbolic": "pattern of exactly 1 bytes over {a,A,*,?,\\\\}, value <= 2 arbitrary bytes, star limit usize",
         "bound": "pattern 1, value <= 2, unwind 8",
         "oracle": "whole-value match, * any sequence, ? ordinary, \\\\* \\\\\\\\ literal, ASCII case folded; rejected iff **, stars > limit, invalid/dangling escape", "min_covers": 4},
        {"name": "c11_wildcard_strict_p1", "mod": "verif_kani_c11", "timeout": 1200, "mem_gb": 12,
         "encodes": ["Wildcard::<true>::new", "validate_wildcard", "has_double_star", "Wildcard::is_match", "wildcard::WildcardBuilder::build", "wildcard::Wildcard::is_match"],
         "symbolic": "pattern of exactly 1 bytes over {a,A,*,?,\\\\}, value <= 2 arbitrary bytes, star limit usize",
         "bound": "pattern 1, value <= 2, unwind 8",
         "oracle": "whole-value match, * any sequence, ? ordinary, \\\\* \\\\\\\\ literal, ASCII case sensitive; rejected iff **, stars > limit, invalid/dangling escape", "min_covers": 4},
        {"name": "c11_wildcard_ci_p2", "mod": "verif_kani_c11", "timeout": 1200, "mem_gb": 12,
         "encodes": ["Wildcard::<false>::new", "validate_wildcard", "has_double_star", "Wildcard::is_match", "wildcard::WildcardBuilder::build", "wildcard::Wildcard::is_match"],
         "symbolic": "pattern of exactly 2 bytes over {a,A,*,?,\\\\}, value <= 2 arbitrary bytes, star limit usize",
         "bound": "pattern 2, value <= 2, unwind 8",
         "oracle": "whole-value match, * any sequence, ? ordinary, \\\\* \\\\\\\\ literal, ASCII case folded; rejected iff **, stars > limit, invalid/dangling escape", "min_covers": 4},
        {"name": "c11_wildcard_strict_p2", "mod": "verif_kani_c11", "timeout": 1200, "mem_gb": 12,
         "encodes": ["Wildcard::<true>::new", "validate_wildcard", "has_double_star", "Wildcard::is_match", "wildcard::WildcardBuilder::build", "wildcard::Wildcard::is_match"],
         "symbolic": "pattern of exactly 2 bytes over {a,A,*,?,\\\\}, value <= 2 arbitrary bytes, star limit usize",
         "bound": "pattern 2, value <= 2, unwind 8",
         "oracle": "whole-value match, * any sequence, ? ordinary, \\\\* \\\\\\\\ literal, ASCII case sensitive; rejected iff **, stars > limit, invalid/dangling escape", "min_covers": 4},
        {"name": "c11_wildcard_empty", "mod": "verif_kani_c11", "timeout": 900, "mem_gb": 10,
         "encodes": ["Wildcard::<false>::new", "Wildcard::is_match"], "symbolic": "value <= 2 bytes, star limit",
         "bound": "empty pattern, unwind 6", "oracle": "matches only the empty value", "min_covers": 2},
        {"name": "c11_wildcard_ci_p3", "mod": "verif_kani_c11", "tier": "thorough", "core": False, "timeout": 2400, "mem_gb": 24,
         "encodes": ["Wildcard::<false>::new", "validate_wildcard", "has_double_star", "Wildcard::is_match", "wildcard::WildcardBuilder::build", "wildcard::Wildcard::is_match"],
         "symbolic": "pattern of exactly 3 bytes over {a,A,*,?,\\\\}, value <= 3 arbitrary bytes, star limit usize",
         "bound": "pattern 3, value <= 3, unwind 10",
         "oracle": "whole-value match, * any sequence, ? ordinary, \\\\* \\\\\\\\ literal, ASCII case folded; rejected iff **, stars > limit, invalid/dangling escape", "min_covers": 4},
        {"name": "c11_wildcard_strict_p3", "mod": "verif_kani_c11", "tier": "thorough", "core": False, "timeout": 2400, "mem_gb": 24,
         "encodes": ["Wildcard::<true>::new", "validate_wildcard", "has_double_star", "Wildcard::is_match", "wildcard::WildcardBuilder::build", "wildcard::Wildcard::is_match"],
         "symbolic": "pattern of exactly 3 bytes over {a,A,*,?,\\\\}, value <= 3 arbitrary bytes, star limit usize",
         "bound": "pattern 3, value <= 3, unwind 10",
         "oracle": "whole-value match, * any sequence, ? ordinary, \\\\* \\\\\\\\ literal, ASCII case sensitive; rejected iff **, stars > limit, invalid/dangling escape", "min_covers": 4},
    ],
    "not_covered": "the regex engine behind `matches`, its configuration and limits, the quoted-pattern scanner "
                   "(regex-automata cannot be compiled by Kani; only the wrapper and the arm are decided), the operator -> "
                   "Wildcard<false/true> wiring in the lexer, patterns longer than 3",
}

PROPS["C20"] = {
    "crate": "ffi",
    "modules": [
        {"mod": "verif_kani_c20", "host": "ffi/src/cstring.rs", "file": "ffi/c20_cstring.rs"},
        {"mod": "verif_kani_c20k", "host": "ffi/src/lib.rs", "file": "ffi/c20_ffi_kernels.rs"},
    ],
    "harnesses": [
        {"name": "c20_cstring_step", "mod": "verif_kani_c20", "timeout": 900, "mem_gb": 10,
         "encodes": ["ffi::cstring::CString::append", "<CString as io::Write>::write", "<CString as fmt::Write>::write_str", "as_c_str"],
         "symbolic": "any valid state (empty or <= 3 non-NUL bytes + NUL), appended buffer <= 3 arbitrary bytes",
         "bound": "state <= 4 bytes, buffer <= 3, unwind 9",
         "oracle": "inductive invariant: exactly one terminating NUL, no interior NUL, equals old ++ buf with NUL -> 0x1A", "min_covers": 3},
        {"name": "c20_cstring_clear", "mod": "verif_kani_c20", "timeout": 600, "mem_gb": 8,
         "encodes": ["CString::clear", "CString::new", "as_c_str"], "symbolic": "any valid state <= 3 bytes",
         "bound": "unwind 6", "oracle": "NULL iff empty; clear() empties", "min_covers": 1},
        {"name": "c15_ctype_small", "mod": "verif_kani_c20k", "timeout": 900, "mem_gb": 10,
         "encodes": ["wirefilter_create_primitive_type", "wirefilter_create_array_type", "wirefilter_create_map_type",
                     "<Type as From<CType>>::from", "<CType as From<Type>>::from", "CType::push", "CType::pop"],
         "symbolic": "primitive (4), <= 3 layers (layer string)", "bound": "<= 3 layers, unwind 6",
         "oracle": "C type built layer by layer converts to the same engine type built the same way, and back", "min_covers": 2},
        {"name": "c15_ctype_step", "mod": "verif_kani_c20k", "timeout": 300, "mem_gb": 6,
         "encodes": ["CType::push", "CType::pop"], "symbolic": "any CType with len < 32 (layers u32), layer kind",
         "bound": "loop-free", "oracle": "pop(push(x)) == x; same bit layout as CompoundType", "min_covers": 2},
    ],
    "not_covered": "equivalence of every wirefilter_* wrapper with the Rust API, last-error per thread, the panic status",
}

PROPS["C07"] = {
    "crate": "engine",
    "modules": [
        {"mod": "verif_kani_c07", "host": "engine/src/ast/logical_expr.rs", "file": "engine/c07_tokens.rs"},
        {"mod": "verif_kani_c20k", "host": "ffi/src/lib.rs", "file": "ffi/c20_ffi_kernels.rs", "crate": "ffi"},
    ],
    "harnesses": [
        {"name": "c07_hash_streaming", "mod": "verif_kani_c20k", "timeout": 900, "mem_gb": 10,
         "encodes": ["ffi::HasherWrite::write", "HasherWrite::write_all", "HasherWrite::flush"],
         "symbolic": "<= 5 bytes, cut point, two single bytes", "bound": "5 bytes, unwind 8",
         "oracle": "the wrapped hasher receives exactly the written bytes in order whatever the chunking; one-byte documents hash equal iff equal", "min_covers": 2},
    ],
    "not_covered": "whitespace/alias independence of whole filters, the JSON serialisation, same-operator flattening, "
                   "manual Eq/Hash impls (AST and serde code are outside what CBMC decides here); the C-API hash is "
                   "covered only for its chunk-independence (ffi kernel, see C20 run)",
}

PROPS["C02"] = {
    "crate": "engine",
    "modules": [
        {"mod": "verif_kani_c02", "host": "engine/src/ast/logical_expr.rs", "file": "engine/c02_quantifier.rs"},
    ],
    "harnesses": [
        {"name": "c02_quantifier_reduce", "mod": "verif_kani_c02", "timeout": 600, "mem_gb": 8,
         "encodes": ["QuantifierOp::reduce_bool_iter"],
         "symbolic": "<= 4 booleans + length", "bound": "4 elements, unwind 7",
         "oracle": "any = some element true; all = every element true; all of empty is true", "min_covers": 3},
    ],
    "not_covered": "indexing, map-each, row-major flattening, element-wise not/and/or/xor and truncation, absent "
                   "containers: all operate on LhsValue arrays/maps inside compiled closures (out of CBMC's reach, DESIGN 3.2)",
}


# ---------------------------------------------------------------------------
# harnesses shared between properties (same harness function, same module)
# ---------------------------------------------------------------------------
def _find(name):
    for p in PROPS.values():
        for h in p["harnesses"]:
            if h["name"] == name:
                mod = [m for m in p["modules"] if m["mod"] == h["mod"]][0]
                return h, mod, p["crate"]
    raise KeyError(name)


def _share(dst, name, front=False):
    h, mod, crate = _find(name)
    P = PROPS[dst]
    if any(x["name"] == name for x in P["harnesses"]):
        return
    if not any(m["mod"] == mod["mod"] for m in P["modules"]):
        m2 = dict(mod)
        m2.setdefault("crate", crate)
        P["modules"].append(m2)
    if front:
        P["harnesses"].insert(0, dict(h))
    else:
        P["harnesses"].append(dict(h))


def _define(dst, mod, h):
    """a harness that is first defined here (module dict + harness dict)"""
    P = PROPS[dst]
    if not any(m["mod"] == mod["mod"] for m in P["modules"]):
        P["modules"].append(dict(mod))
    P["harnesses"].append(h)


_PARSE_MOD = {"mod": "verif_kani_parse", "host": "engine/src/scheme.rs", "file": "engine/parse_logic.rs"}
_EXEC_MOD = {"mod": "verif_kani_exec", "host": "engine/src/scheme.rs", "file": "engine/exec_kernels.rs"}
_PSTUB = ["Scheme::get -> one-letter names a..d are fields 0..3", "rhs_types::Regex::new -> unreachable"]
_PENC = ["<LogicalExpr as LexWith>::lex_with", "LogicalExpr::lex_simple_expr", "lex_more_with_precedence",
         "lex_combining_op", "<ComparisonExpr as LexWith>::lex_with", "lex_with_lhs", "<IndexExpr as LexWith>::lex_with",
         "<IdentifierExpr as LexWith>::lex_with", "<Identifier as LexWith>::lex_with",
         "FilterParser::with_increased_nesting"]

_define("C03", _EXEC_MOD, {
    "name": "c03_optional_defaults", "mod": "verif_kani_exec", "big": True, "tier": "thorough", "core": False, "timeout": 1800, "mem_gb": 40, "rss_gb": 30,
    "encodes": ["SimpleFunctionDefinition::compile (closure)", "ExactSizeChain", "arg_count"],
    "symbolic": "defaults d0,d1 (i64), supplied values (3 x i64), number supplied 1..3",
    "bound": "1 mandatory + 2 optional params, unwind 6",
    "oracle": "implementation sees supplied values then the defaults of exactly the omitted parameters, in order",
    "min_covers": 3, "stubs": ["implementation: harness function recording its arguments"]})

_share("C05", "c13_nesting_step")
_share("C01", "c13_parse_nesting_sites") if False else None


# C10: the engine's own `contains` dispatch (compile arm), with the two counted
# rewrites that make its environment symbolic
PROPS["C10"]["rewrites"] = [
    {"id": "R2", "file": "engine/src/ast/field_expr.rs", "find": "if *USE_AVX2 {", "count": 1,
     "replace": "if crate::scheme::verif_kani_cmp::use_avx2() {"},
    {"id": "R1", "file": "engine/src/ast/field_expr.rs", "find": "rng().random_range(", "count": 2,
     "replace": "crate::scheme::verif_kani_cmp::nondet_range("},
]
_CMP_MOD = {"mod": "verif_kani_cmp", "host": "engine/src/scheme.rs", "file": "engine/cmp_arms.rs"}
for _n, _t in ((0, "quick"), (2, "quick"), (3, "thorough")):
    _h = {
        "name": "c10_contains_dispatch_n%d" % _n, "mod": "verif_kani_cmp", "big": True, "timeout": 1800, "mem_gb": 24, "rss_gb": 8,
        "encodes": ["ComparisonExpr::compile_with_compiler (Contains arm: length dispatch, slice_to_array, anchor range, "
                    "ArraySearcher / EmptySearcher construction)", "sliceslice::x86::Avx2Searcher::with_position", "search_in"],
        "symbolic": "pattern of %d arbitrary bytes, anchor anywhere in the range the source passes, value <= 4 bytes" % _n,
        "bound": "pattern %d, value <= 4, unwind 8" % _n,
        "oracle": "naive substring search; anchor within 1..len; absent value => false", "min_covers": 3,
        "stubs": ["IndexExpr::compile_with -> harness continuation", "rand::rngs::thread::rng -> unreachable",
                  "rewrite R2: `if *USE_AVX2 {` -> harness flag (true)", "rewrite R1: `rng().random_range(` -> symbolic value in the passed range"],
    }
    if _t == "thorough":
        _h["tier"] = "thorough"
        _h["core"] = False
    _define("C10", _CMP_MOD, _h)

for _name, _n, _sym in (("c10_contains_dispatch_n1", 1, "one-byte pattern, SIMD latch symbolic (either value)"),
                        ("c10_contains_scalar_n2", 2, "2-byte pattern, SIMD latch off"),
                        ("c10_contains_scalar_n3", 3, "3-byte pattern, SIMD latch off")):
    _define("C10", _CMP_MOD, {
        "name": _name, "mod": "verif_kani_cmp", "big": True, "timeout": 1800, "mem_gb": 24, "rss_gb": 8,
        "encodes": ["ComparisonExpr::compile_with_compiler (Contains arm: single-byte shortcut / fall-through to the scalar searcher)",
                    "<sliceslice::MemchrSearcher as Compare>::compare" if _n == 1 else "MemmemSearcher::new, <MemmemSearcher as Compare>::compare",
                    "sliceslice::MemchrSearcher::search_in" if _n == 1 else
                    "memchr::memmem::FinderBuilder::build_forward_owned, Finder::find, Searcher::new/find (SSE2 kind), rabinkarp::Finder::new/find"],
        "symbolic": "%s, every value <= 4 bytes" % _sym, "bound": "pattern %d, value <= 4, unwind 8" % _n,
        "oracle": "naive substring search; no SIMD anchor drawn; absent value => false", "min_covers": 3,
        "stubs": ["IndexExpr::compile_with -> harness continuation", "rand::rngs::thread::rng -> unreachable",
                  "memchr::memchr -> its contract (index of the first occurrence; the real one dispatches on cpuid)",
                  "memchr::arch::x86_64::avx2::packedpair::Finder::with_pair -> None (AVX2 availability is a cpuid query)",
                  "rewrite R2: `if *USE_AVX2 {` -> harness flag", "rewrite R1"],
        **({"tier": "thorough", "core": False} if _name.endswith("scalar_n3") else {})})

PROPS["C12"] = {
    "crate": "engine",
    "modules": [
        {"mod": "verif_kani_c12", "host": "engine/src/scheme.rs", "file": "engine/c12_walk.rs"},
    ],
    "harnesses": [
        {"name": "c12_walk_logical_step", "mod": "verif_kani_c12", "big": True, "timeout": 1200, "mem_gb": 24, "rss_gb": 6,
         "encodes": ["<LogicalExpr as Expr>::walk", "QuantifierArgExpr::walk"],
         "symbolic": "node kind (comparison, parentheses, not, any(index), all(logical), 3-operand chain)",
         "bound": "one walk step, unwind 5",
         "oracle": "exactly the node's children are visited, in order, through the right visitor method", "min_covers": 3},
        {"name": "c12_walk_value_step", "mod": "verif_kani_c12", "big": True, "timeout": 1200, "mem_gb": 24, "rss_gb": 6,
         "encodes": ["<ComparisonExpr as Expr>::walk", "<IndexExpr as ValueExpr>::walk", "<FunctionCallExpr as ValueExpr>::walk",
                     "<FunctionCallArgExpr as ValueExpr>::walk"],
         "symbolic": "argument kind (index / literal / logical), literal value", "bound": "one walk step, 3 arguments, unwind 5",
         "oracle": "comparison -> lhs; index -> field or call; call -> every argument in order, then the function; literal -> nothing",
         "min_covers": 2},
        {"name": "c12_uses_comparison_plain", "mod": "verif_kani_c12", "big": True, "tier": "thorough", "core": False, "timeout": 1200, "mem_gb": 24, "rss_gb": 6,
         "encodes": ["UsesVisitor (visit_expr, visit_value_expr, visit_field)", "UsesListVisitor::visit_comparison_expr",
                     "LogicalExpr::walk", "ComparisonExpr::walk", "IndexExpr::walk", "FieldRef == Field"],
         "symbolic": "queried field index, used field index (4x4)", "bound": "one comparison node (bare boolean), unwind 2",
         "oracle": "uses iff same field of the same scheme; uses_list iff additionally an `in $list` comparison", "min_covers": 3},
        {"name": "c12_uses_comparison_in_list", "mod": "verif_kani_c12", "big": True, "tier": "thorough", "core": False, "timeout": 1200, "mem_gb": 24, "rss_gb": 6,
         "encodes": ["UsesVisitor (visit_expr, visit_value_expr, visit_field)", "UsesListVisitor::visit_comparison_expr",
                     "LogicalExpr::walk", "ComparisonExpr::walk", "IndexExpr::walk", "FieldRef == Field"],
         "symbolic": "queried field index, used field index (4x4)", "bound": "one comparison node (`in $list`), unwind 2",
         "oracle": "uses iff same field of the same scheme; uses_list iff additionally an `in $list` comparison", "min_covers": 3},
    ],
    "not_covered": "the composition of walk steps over whole trees (deep nesting, function arguments at depth), name "
                   "resolution through the registry, unknown-name errors, FilterValueAst",
}

for _n in range(2, 17):
    _define("C10", _CMP_MOD, {
        "name": "c10_contains_len_%02d" % _n, "mod": "verif_kani_cmp", "big": True, "timeout": 1200, "mem_gb": 24, "rss_gb": 5,
        "encodes": ["ComparisonExpr::compile_with_compiler (Contains arm: length arm %d, slice_to_array::<%d>)" % (_n, _n),
                    "Avx2Searcher::<[u8; %d]>::with_position / search_in (equal-length path)" % _n],
        "symbolic": "%d pattern bytes, anchor in the passed range, 'last byte differs' flag" % _n,
        "bound": "pattern %d, value of the same length, unwind 3 (memcmp: 18)" % _n,
        "cbmc_args": ["--unwindset", "memcmp.0:18"],
        "oracle": "pattern found in itself, not found in a copy whose last byte differs; anchor within 1..len", "min_covers": 2,
        "stubs": ["IndexExpr::compile_with -> harness continuation", "rand::rngs::thread::rng -> unreachable",
                  "rewrite R2", "rewrite R1"]})
_define("C09", _CMP_MOD, {
    "name": "c09_oneof_bytes", "mod": "verif_kani_cmp", "big": True, "tier": "thorough", "core": False, "timeout": 1800, "mem_gb": 40, "rss_gb": 20,
    "encodes": ["ComparisonExpr::compile_with_compiler (OneOf/Bytes arm: BTreeSet construction, Contains comparator)"],
    "symbolic": "one 2-byte and one 1-byte item, probe <= 2 bytes", "bound": "2 items, unwind 8",
    "oracle": "probe equals some listed byte string; absent => false", "min_covers": 3,
    "stubs": ["IndexExpr::compile_with -> harness continuation", "rand::rngs::thread::rng -> unreachable"]})
_define("C11", {"mod": "verif_kani_c11", "host": "engine/src/rhs_types/wildcard.rs", "file": "engine/c11_wildcard.rs"}, {
    "name": "c11_wildcard_validate_p4", "mod": "verif_kani_c11", "timeout": 1200, "mem_gb": 12,
    "encodes": ["Wildcard::<true>::new", "validate_wildcard", "has_double_star", "wildcard::WildcardBuilder::build"],
    "symbolic": "pattern of exactly 4 bytes over {a,*,\\}, star limit usize", "bound": "pattern 4, unwind 8",
    "oracle": "accepted iff escapes valid, no two adjacent unescaped stars, stars <= limit; error kind names the reason",
    "min_covers": 4})
_define("C11", _CMP_MOD, {
    "name": "c11_matches_arm", "mod": "verif_kani_cmp", "big": True, "timeout": 1500, "mem_gb": 24, "rss_gb": 8,
    "encodes": ["ComparisonExpr::compile_with_compiler (Matches arm, nil default)", "<rhs_types::Regex as Compare>::compare",
                "rhs_types::regex::imp_real::Regex::is_match", "regex_automata::Input::from(&[u8])"],
    "symbolic": "value <= 2 arbitrary bytes, the engine's answer (bool), nil-not-equal setting", "bound": "value <= 2, unwind 4",
    "oracle": "result == the engine's answer; engine asked once about exactly the value's bytes, unanchored, whole span; absent => false",
    "min_covers": 2,
    "stubs": ["IndexExpr::compile_with -> harness continuation", "rand::rngs::thread::rng -> unreachable",
              "regex_automata::meta::Regex::is_match -> recording oracle with an arbitrary answer (the regex engine itself is NOT encoded)",
              "the engine-side Regex value is an uninitialised placeholder (never read: every use goes through the stub)"]})
_share("C11", "c13_nesting_step")

_define("C17", {"mod": "verif_kani_c17", "host": "engine/src/list_matcher.rs", "file": "engine/c17_lists.rs"}, {
    "name": "c17_list_name_lex", "mod": "verif_kani_c17", "timeout": 1800, "mem_gb": 40, "rss_gb": 20,
    "encodes": ["<ListName as Lex>::lex"], "symbolic": "`$` + <= 2 ASCII characters", "bound": "3 chars, unwind 4",
    "oracle": "name = longest run of a-z 0-9 _ . ; rejected if empty or starting/ending with a dot; rest untouched",
    "min_covers": 4})

_C06_MOD = {"mod": "verif_kani_c06", "host": "engine/src/rhs_types/bytes.rs", "file": "engine/c06_bytes.rs"}
_define("C05", {"mod": "verif_kani_c05_lex", "host": "engine/src/lex.rs", "file": "engine/c05_lex.rs"}, {
    "name": "c05_take_non_ascii", "mod": "verif_kani_c05_lex", "timeout": 1200, "mem_gb": 12,
    "encodes": ["lex::take", "lex::take_while", "lex::span", "lex::skip_space", "core::str::Chars::next (UTF-8 decoder)"],
    "symbolic": "every 2-byte UTF-8 character, optionally followed by any ASCII character; count 0..=3",
    "bound": "<= 2 characters (3 bytes), unwind 5",
    "oracle": "spans count characters and end on character boundaries; consumed ++ rest == input; no panic", "min_covers": 3})
for _w in (2, 3):
    _define("C05", _C06_MOD, {
        "name": "c05_escape_non_ascii_w%d" % _w, "mod": "verif_kani_c06", "timeout": 1500, "mem_gb": 30, "rss_gb": 20,
        "encodes": ["rhs_types::bytes::lex_quoted_string_as_vec (escape arm, error span slicing)", "core::str::Chars::next (UTF-8 decoder)"],
        "symbolic": "backslash + every %d-byte UTF-8 character%s + closing quote" % (_w, "" if _w == 2 else " with lead byte E1..EC"),
        "bound": "%d bytes of text, unwind 2" % (_w + 2),
        "oracle": "Err(InvalidCharacterEscape) whose span is exactly the escaped character; no panic (char-boundary slicing)",
        "min_covers": 2, **({} if _w == 2 else {"tier": "thorough", "core": False})})
_define("C06", _C06_MOD, {
    "name": "c06_int_range_rule", "mod": "verif_kani_c06", "timeout": 1200, "mem_gb": 28, "rss_gb": 16,
    "encodes": ["<IntRange as Lex>::lex"], "symbolic": "both bound values (full i64)",
    "bound": "fixed text `1..2;`, unwind 3", "oracle": "accepted iff a <= b, denotes a..=b; consumes exactly the literal",
    "min_covers": 3, "stubs": ["<i64 as Lex>::lex -> consumes one character, returns an arbitrary i64"]})
_define("C06", _C06_MOD, {
    "name": "c06_index_literal_rule", "mod": "verif_kani_c06", "timeout": 1200, "mem_gb": 28, "rss_gb": 16,
    "encodes": ["<FieldIndex as Lex>::lex", "<RhsValue as LexWith<Type>>::lex_with (Int arm)"],
    "symbolic": "index value (full i64)", "bound": "fixed text `7]`, unwind 2",
    "oracle": "accepted iff 0 <= n <= 2^32-1, denotes n", "min_covers": 4,
    "stubs": ["<i64 as Lex>::lex -> consumes one character, returns an arbitrary i64"]})
_define("C06", {"mod": "verif_kani_c09_ip", "host": "engine/src/rhs_types/ip.rs", "file": "engine/c09_ip.rs"}, {
    "name": "c06_ip_range_rule", "mod": "verif_kani_c09_ip", "timeout": 900, "mem_gb": 12,
    "encodes": ["<IpRange as Lex>::lex (explicit range branch)", "match_addr_or_cidr"],
    "symbolic": "both bounds (family + u128)", "bound": "fixed text, unwind 18",
    "oracle": "accepted iff same family and first <= last; bounds preserved", "min_covers": 4,
    "stubs": ["rhs_types::ip::parse_addr -> arbitrary address"]})
_share("C09", "c06_ip_range_rule")
_share("C06", "c09_cidr_v4_bounds")
_share("C06", "c09_cidr_v6_bounds")

_C20K = {"mod": "verif_kani_c20k", "host": "ffi/src/lib.rs", "file": "ffi/c20_ffi_kernels.rs"}
_define("C20", _C20K, {
    "name": "c20_result_constants", "mod": "verif_kani_c20k", "timeout": 300, "mem_gb": 8,
    "encodes": ["MatchingResult::{PANIC,ERROR}", "UsingResult::ERROR", "Status discriminants"],
    "symbolic": "none (constant table)", "bound": "loop-free",
    "oracle": "match panic -> Status::Panic; errors -> Status::Error; Success == 0", "min_covers": 1})

_C07_MOD = {"mod": "verif_kani_c07", "host": "engine/src/ast/logical_expr.rs", "file": "engine/c07_tokens.rs"}
_share("C07", "c01_precedence_order")

_define("C09", _CMP_MOD, {
    "name": "c09_oneof_ip_v4_item", "mod": "verif_kani_cmp", "big": True, "timeout": 1500, "mem_gb": 24, "rss_gb": 8,
    "encodes": ["ComparisonExpr::compile_with_compiler (OneOf/Ip arm: family split, CIDR -> range, RangeSet, OneOfIp comparator)"],
    "symbolic": "IPv4 CIDR a/len, probe of either family (family + u128)", "bound": "1 item, unwind 6",
    "oracle": "true iff the probe is IPv4 and shares the prefix; IPv4-mapped IPv6 probes are IPv6; absent => false",
    "min_covers": 4,
    "stubs": ["IndexExpr::compile_with -> harness continuation", "rand::rngs::thread::rng -> unreachable"]})
_define("C09", _CMP_MOD, {
    "name": "c09_oneof_ip_v6_item", "mod": "verif_kani_cmp", "big": True, "tier": "thorough", "core": False, "timeout": 1800, "mem_gb": 40, "rss_gb": 20,
    "unwindset": [["memcmp", 18], ["chaining_impl", 10]],
    "encodes": ["ComparisonExpr::compile_with_compiler (OneOf/Ip arm)"],
    "symbolic": "explicit IPv6 range lo..hi (u128), probe of either family", "bound": "1 item, unwind 5 (memcmp 18, slice-compare 10)",
    "oracle": "true iff the probe is IPv6 and inside; absent => false", "min_covers": 3,
    "stubs": ["IndexExpr::compile_with -> harness continuation", "rand::rngs::thread::rng -> unreachable"]})

_define("C06", _C06_MOD, {
    "name": "c06_int_single_rule", "mod": "verif_kani_c06", "timeout": 1200, "mem_gb": 28, "rss_gb": 16,
    "encodes": ["<IntRange as Lex>::lex"], "symbolic": "the value (full i64)",
    "bound": "fixed text `1;`, unwind 3", "oracle": "a single value v denotes v..=v", "min_covers": 1,
    "stubs": ["<i64 as Lex>::lex -> consumes one character, returns an arbitrary i64"]})

_define("C17", _CMP_MOD, {
    "name": "c17_inlist_absent_default", "mod": "verif_kani_cmp", "big": True, "timeout": 1200, "mem_gb": 24, "rss_gb": 6,
    "encodes": ["ComparisonExpr::compile_with_compiler (InList arm: default passed on for an absent value)"],
    "symbolic": "nil-not-equal setting", "bound": "unwind 4", "oracle": "default is false", "min_covers": 2,
    "stubs": ["IndexExpr::compile_with -> harness continuation recording the default only", "rand::rngs::thread::rng -> unreachable"]})

_ARR_MOD = {"mod": "verif_kani_arr", "host": "engine/src/lhs_types/array.rs", "file": "engine/array_kernels.rs"}
_define("C02", _ARR_MOD, {
    "name": "c02_array_get_extract", "mod": "verif_kani_arr", "timeout": 1200, "mem_gb": 20, "rss_gb": 8,
    "encodes": ["Array::get", "Array::extract (borrowed)", "InnerArray::get", "Array::len/is_empty"],
    "symbolic": "<= 3 Int elements (values), length, index u32", "bound": "3 elements, unwind 5",
    "oracle": "the n-th element iff n < len (including n = len-1), otherwise no value", "min_covers": 4})
_define("C02", _ARR_MOD, {
    "name": "c02_array_extract_owned", "mod": "verif_kani_arr", "tier": "thorough", "core": False, "timeout": 1200, "mem_gb": 20, "rss_gb": 8,
    "encodes": ["Array::extract (owned: swap_remove)"],
    "symbolic": "3 Int elements, index u32", "bound": "3 elements, unwind 5",
    "oracle": "the n-th element iff n < 3", "min_covers": 2})
_define("C03", _ARR_MOD, {
    "name": "c03_filter_map_order", "mod": "verif_kani_arr", "tier": "thorough", "core": False, "timeout": 1500, "mem_gb": 24, "rss_gb": 10,
    "encodes": ["Array::filter_map_to (owned path, used by map-each function application)"],
    "symbolic": "4 Int elements, the value whose occurrences the mapped function drops", "bound": "4 elements, unwind 5",
    "oracle": "dropped elements disappear, the surviving ones keep their order", "min_covers": 3})
