//! C15 / C04 kernels: recursive Type <-> packed CompoundType. Child of `types`.
use super::*;

fn any_primitive() -> (PrimitiveType, Type) {
    let k: u8 = kani::any();
    kani::assume(k < 4);
    match k {
        0 => (PrimitiveType::Bool, Type::Bool),
        1 => (PrimitiveType::Bytes, Type::Bytes),
        2 => (PrimitiveType::Int, Type::Int),
        _ => (PrimitiveType::Ip, Type::Ip),
    }
}

/// Build a type layer by layer (innermost first) through the public recursive
/// form, then peel it back: every layer must come back in order, and packing
/// is injective on (layers, len, primitive).
#[kani::proof]
#[kani::unwind(34)]
fn c15_compound_roundtrip() {
    let (prim, prim_ty) = any_primitive();
    let bits: u32 = kani::any();
    let n: u8 = kani::any();
    kani::assume(n <= 32);
    // recursive form, built the way the JSON deserializer and users build it
    let mut ty = prim_ty;
    let mut i = 0u8;
    while i < n {
        // layer i (0 = innermost): bit i of `bits`: 0 = Array, 1 = Map
        let inner = CompoundType::from_type(ty);
        ty = if (bits >> i) & 1 == 0 { Type::Array(inner) } else { Type::Map(inner) };
        i += 1;
    }
    let packed = CompoundType::from_type(ty);
    assert!(packed.len == n, "packed length differs from the number of layers");
    assert!(packed.primitive == prim, "primitive lost");
    // back to the recursive form: same outermost constructor, and equal value
    let back = packed.into_type();
    assert!(back == ty, "into_type(from_type(t)) != t");
    // peel: outermost layer first
    let mut cur = ty;
    let mut j = n;
    while j > 0 {
        j -= 1;
        let want_map = (bits >> j) & 1 == 1;
        match cur {
            Type::Array(inner) => {
                assert!(!want_map, "layer kind changed (expected Map)");
                assert!(cur.next() == Some(inner.into()), "Type::next() differs from the inner type");
                cur = inner.into();
            }
            Type::Map(inner) => {
                assert!(want_map, "layer kind changed (expected Array)");
                cur = inner.into();
            }
            _ => {
                assert!(false, "ran out of layers early");
            }
        }
    }
    assert!(cur == prim_ty, "innermost type differs");
    assert!(cur.next().is_none(), "a primitive has no next type");
    kani::cover!(n == 32);
    kani::cover!(n == 0);
    kani::cover!(n == 5 && bits & 0x1f == 0b10101);
}

/// push refuses the 33rd layer (returns None) and never changes lower layers.
#[kani::proof]
fn c15_push_pop_step() {
    let (prim, _) = any_primitive();
    let layers: u32 = kani::any();
    let len: u8 = kani::any();
    kani::assume(len <= 32);
    // representation invariant: bits above `len` are zero
    kani::assume(len == 32 || layers >> len == 0);
    let ct = CompoundType { layers, len, primitive: prim };
    let is_map: bool = kani::any();
    let pushed = ct.push(if is_map { Layer::Map } else { Layer::Array });
    if len >= 32 {
        assert!(pushed.is_none(), "a 33rd layer must be refused");
    } else {
        let p = pushed.unwrap();
        assert!(p.len == len + 1 && p.primitive == prim);
        assert!(p.len == 32 || p.layers >> p.len == 0, "invariant broken by push");
        let (q, layer) = p.pop();
        assert!(q == ct, "pop(push(x)) != x");
        assert!(matches!(layer, Some(Layer::Map)) == is_map && layer.is_some(), "pop returned a different layer kind");
        // two different layers or two different bases never collide
        let other = ct.push(if is_map { Layer::Array } else { Layer::Map }).unwrap();
        assert!(other != p, "Array and Map layers pack to the same value");
    }
    if len == 0 {
        let (q, layer) = ct.pop();
        assert!(layer.is_none() && q == ct, "pop on a primitive must return None");
    }
    kani::cover!(len == 32);
    kani::cover!(len == 31 && pushed.is_some());
    kani::cover!(len == 0);
}

/// Equality of the packed form is equality of (layer string, primitive): two
/// recursive types built from different descriptions are different.
#[kani::proof]
#[kani::unwind(10)]
fn c15_packing_injective() {
    let (p1, t1) = any_primitive();
    let (p2, t2) = any_primitive();
    let b1: u32 = kani::any();
    let b2: u32 = kani::any();
    let n1: u8 = kani::any();
    let n2: u8 = kani::any();
    kani::assume(n1 <= 8 && n2 <= 8);
    let mut a = t1;
    let mut i = 0u8;
    while i < n1 {
        let inner = CompoundType::from_type(a);
        a = if (b1 >> i) & 1 == 0 { Type::Array(inner) } else { Type::Map(inner) };
        i += 1;
    }
    let mut b = t2;
    let mut i = 0u8;
    while i < n2 {
        let inner = CompoundType::from_type(b);
        b = if (b2 >> i) & 1 == 0 { Type::Array(inner) } else { Type::Map(inner) };
        i += 1;
    }
    let mask1 = if n1 == 0 { 0 } else { (1u32 << n1) - 1 };
    let same_desc = p1 == p2 && n1 == n2 && (b1 & mask1) == (b2 & mask1);
    assert!((a == b) == same_desc, "type equality differs from equality of descriptions");
    assert!((CompoundType::from_type(a) == CompoundType::from_type(b)) == same_desc);
    kani::cover!(same_desc && n1 == 8);
    kani::cover!(!same_desc && n1 == n2 && p1 == p2 && n1 > 0);
}

/// The checked conversion used when a type is deserialized: `None` exactly for
/// a container over an already 32-layer type, otherwise the same value
/// `from_type` gives (never a panic).
#[kani::proof]
fn c15_checked_from_type() {
    let (prim, prim_ty) = any_primitive();
    let layers: u32 = kani::any();
    let len: u8 = kani::any();
    kani::assume(len <= 32);
    kani::assume(len == 32 || layers >> len == 0);
    let inner = CompoundType { layers, len, primitive: prim };
    let which: u8 = kani::any();
    kani::assume(which < 3);
    let ty = match which {
        0 => prim_ty,
        1 => Type::Array(inner),
        _ => Type::Map(inner),
    };
    let r = CompoundType::checked_from_type(ty);
    if which != 0 && len == 32 {
        assert!(r.is_none(), "a type deeper than 32 layers must be refused, not packed");
    } else {
        assert!(r.is_some(), "representable type refused");
        assert!(r == Some(CompoundType::from_type(ty)), "checked and unchecked conversions differ");
        assert!(r.unwrap().into_type() == ty, "conversion is not invertible");
    }
    kani::cover!(r.is_none());
    kani::cover!(r.is_some() && len == 31 && which == 2);
    kani::cover!(which == 0);
}
