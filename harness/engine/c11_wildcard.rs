//! C11 kernels: wildcard construction/validation wiring and matching.
//! Child of `rhs_types::wildcard`.
use super::*;
use crate::rhs_types::bytes::BytesFormat;

fn alpha(c: u8) -> bool {
    c == b'a' || c == b'A' || c == b'*' || c == b'?' || c == b'\\'
}

fn eq_byte(a: u8, b: u8, strict: bool) -> bool {
    if strict { a == b } else { a.to_ascii_lowercase() == b.to_ascii_lowercase() }
}

/// Reference model, written with constant loop bounds (P = pattern capacity,
/// V = value capacity <= 3) so that every array index is a constant.
/// Syntax: `\*` and `\\` are literals, any other escape and a dangling `\`
/// are invalid; `*` matches any byte sequence; `?` is an ordinary character.
struct Model {
    valid: bool,
    stars: usize,
    double_star: bool,
}

fn analyse(p: &[u8; 3], plen: usize) -> Model {
    let mut esc = false;
    let mut valid = true;
    let mut stars = 0;
    let mut prev_star = false;
    let mut dbl = false;
    let mut i = 0;
    while i < 3 {
        if i < plen {
            let c = p[i];
            if esc {
                if !(c == b'*' || c == b'\\') {
                    valid = false;
                }
                esc = false;
                prev_star = false;
            } else if c == b'\\' {
                esc = true;
                prev_star = false;
            } else if c == b'*' {
                stars += 1;
                if prev_star {
                    dbl = true;
                }
                prev_star = true;
            } else {
                prev_star = false;
            }
        }
        i += 1;
    }
    if esc {
        valid = false;
    }
    Model { valid, stars, double_star: dbl }
}

/// dp[pi][vi]: does p[pi..plen] match v[vi..vlen] entirely (valid patterns only).
fn model_match(p: &[u8; 3], plen: usize, v: &[u8; 3], vlen: usize, strict: bool) -> bool {
    let mut dp = [[false; 5]; 5];
    let mut pi = 4;
    while pi > 0 {
        pi -= 1;
        let mut vi = 4;
        while vi > 0 {
            vi -= 1;
            let r = if pi > plen || vi > vlen {
                false
            } else if pi == plen {
                vi == vlen
            } else if pi < 3 {
                let c = p[pi];
                if c == b'\\' {
                    let lit = if pi + 1 < 3 { p[pi + 1] } else { 0 };
                    vi < vlen && vi < 3 && eq_byte(lit, v[vi], strict) && dp[pi + 2][vi + 1]
                } else if c == b'*' {
                    dp[pi + 1][vi] || (vi < vlen && dp[pi][vi + 1])
                } else {
                    vi < vlen && vi < 3 && eq_byte(c, v[vi], strict) && dp[pi + 1][vi + 1]
                }
            } else {
                false
            };
            dp[pi][vi] = r;
        }
    }
    dp[0][0]
}

fn check<const STRICT: bool>(pat: &[u8], p: &[u8; 3], plen: usize, v: &[u8; 3], vlen: usize, limit: usize) {
    let m = analyse(p, plen);
    let res = Wildcard::<STRICT>::new(BytesExpr::new(pat.to_vec(), BytesFormat::Quoted), limit);
    match &res {
        Ok(w) => {
            assert!(m.valid, "pattern with an invalid or dangling escape accepted");
            assert!(m.stars <= limit, "pattern over the star limit accepted");
            assert!(!m.double_star, "pattern containing ** accepted");
            let got = w.is_match(&v[..vlen]);
            let want = model_match(p, plen, v, vlen, STRICT);
            assert!(got == want, "wildcard match disagrees with the documented semantics");
            assert!(w.pattern().len() == plen, "stored pattern differs from the source pattern");
            kani::cover!(got && m.stars == 1 && vlen >= 2);
            kani::cover!(!got && m.stars == 0 && plen == vlen && plen > 0);
            // case folding is observable only in the case-insensitive flavour
            kani::cover!(STRICT || plen != 1 || (got && m.stars == 0 && v[0] != p[0]));
            kani::cover!(!STRICT || plen != 1 || (!got && vlen == 1 && p[0] == b'A' && v[0] == b'a'));
        }
        Err(WildcardError::InvalidWildcard(_)) => assert!(!m.valid, "valid pattern reported invalid"),
        Err(WildcardError::TooManyStarMetacharacters { count, limit: l }) => {
            assert!(m.valid && m.stars > limit, "star limit error although within the limit");
            assert!(*count == m.stars && *l == limit);
        }
        Err(WildcardError::DoubleStar) => {
            assert!(m.valid && m.double_star && m.stars <= limit, "double star error without **")
        }
    }
    kani::cover!(res.is_ok());
    // ** needs two pattern bytes
    kani::cover!(plen < 2 || matches!(res, Err(WildcardError::DoubleStar)));
    kani::cover!(matches!(res, Err(WildcardError::InvalidWildcard(_))));
    kani::cover!(matches!(res, Err(WildcardError::TooManyStarMetacharacters { .. })));
    std::mem::forget(res);
}

macro_rules! wildcard_harness {
    ($name:ident, $strict:expr, $plen:expr, $vn:expr, $unwind:expr) => {
        #[kani::proof]
        #[kani::unwind($unwind)]
        fn $name() {
            let mut p: [u8; 3] = kani::any();
            let mut i = 0;
            while i < 3 {
                if i >= $plen {
                    p[i] = 0;
                }
                kani::assume(i >= $plen || alpha(p[i]));
                i += 1;
            }
            let mut v: [u8; 3] = kani::any();
            let vlen: usize = kani::any();
            kani::assume(vlen <= $vn);
            let mut i = 0;
            while i < 3 {
                if i >= $vn {
                    v[i] = 0;
                }
                i += 1;
            }
            let limit: usize = kani::any();
            // concrete pattern length per harness: allocation sizes stay constant
            check::<$strict>(&p[..$plen], &p, $plen, &v, vlen, limit);
        }
    };
}

wildcard_harness!(c11_wildcard_ci_p1, false, 1, 2, 8);
wildcard_harness!(c11_wildcard_ci_p2, false, 2, 2, 8);
wildcard_harness!(c11_wildcard_strict_p1, true, 1, 2, 8);
wildcard_harness!(c11_wildcard_strict_p2, true, 2, 2, 8);
wildcard_harness!(c11_wildcard_ci_p3, false, 3, 3, 10);
wildcard_harness!(c11_wildcard_strict_p3, true, 3, 3, 10);

/// The empty pattern matches exactly the empty value.
#[kani::proof]
#[kani::unwind(6)]
fn c11_wildcard_empty() {
    let v: [u8; 2] = kani::any();
    let vlen: usize = kani::any();
    kani::assume(vlen <= 2);
    let limit: usize = kani::any();
    let res = Wildcard::<false>::new(BytesExpr::new(Vec::new(), BytesFormat::Quoted), limit);
    match &res {
        Ok(w) => assert!(w.is_match(&v[..vlen]) == (vlen == 0), "empty pattern must match only the empty value"),
        Err(_) => assert!(false, "empty pattern rejected"),
    }
    kani::cover!(vlen == 0);
    kani::cover!(vlen == 2);
    std::mem::forget(res);
}

/// Validation only (no matching), patterns of exactly 4 bytes over {a,*,\}:
/// accepted iff the escapes are valid, no two unescaped stars are adjacent and
/// the number of unescaped stars is within the limit.
#[kani::proof]
#[kani::unwind(8)]
fn c11_wildcard_validate_p4() {
    let p: [u8; 4] = [kani::any(), kani::any(), kani::any(), kani::any()];
    kani::assume(p[0] == b'a' || p[0] == b'*' || p[0] == b'\\');
    kani::assume(p[1] == b'a' || p[1] == b'*' || p[1] == b'\\');
    kani::assume(p[2] == b'a' || p[2] == b'*' || p[2] == b'\\');
    kani::assume(p[3] == b'a' || p[3] == b'*' || p[3] == b'\\');
    let limit: usize = kani::any();
    // reference scan
    let mut esc = false;
    let mut valid = true;
    let mut stars = 0usize;
    let mut prev_star = false;
    let mut dbl = false;
    let mut i = 0;
    while i < 4 {
        let c = p[i];
        if esc {
            if !(c == b'*' || c == b'\\') {
                valid = false;
            }
            esc = false;
            prev_star = false;
        } else if c == b'\\' {
            esc = true;
            prev_star = false;
        } else if c == b'*' {
            stars += 1;
            if prev_star {
                dbl = true;
            }
            prev_star = true;
        } else {
            prev_star = false;
        }
        i += 1;
    }
    if esc {
        valid = false;
    }
    let res = Wildcard::<true>::new(BytesExpr::new(p.to_vec(), BytesFormat::Quoted), limit);
    match &res {
        Ok(_) => assert!(valid && stars <= limit && !dbl, "invalid pattern accepted (bad escape, too many stars or **)"),
        Err(WildcardError::InvalidWildcard(_)) => assert!(!valid, "valid pattern reported invalid"),
        Err(WildcardError::TooManyStarMetacharacters { count, limit: l }) => {
            assert!(valid && stars > limit && *count == stars && *l == limit, "star limit error although within the limit")
        }
        Err(WildcardError::DoubleStar) => assert!(valid && dbl && stars <= limit, "double star error without **"),
    }
    kani::cover!(matches!(res, Err(WildcardError::DoubleStar)) && p[0] == b'a' && p[3] == b'a');
    kani::cover!(matches!(res, Err(WildcardError::DoubleStar)) && p[0] == b'a' && p[1] == b'a');
    kani::cover!(res.is_ok() && stars == 2);
    kani::cover!(res.is_ok() && p[0] == b'\\' && p[1] == b'*' && p[2] == b'*');
    std::mem::forget(res);
}
