//! C10 kernels: the SIMD substring search the engine delegates `contains` to,
//! for every anchor position, against a naive window search. Child of `searcher`.
use super::*;
use sliceslice::x86::Avx2Searcher;

fn naive(hay: &[u8], needle: &[u8]) -> bool {
    let n = needle.len();
    if n > hay.len() {
        return false;
    }
    let mut i = 0;
    while i + n <= hay.len() {
        let mut j = 0;
        let mut eq = true;
        while j < n {
            if hay[i + j] != needle[j] {
                eq = false;
            }
            j += 1;
        }
        if eq {
            return true;
        }
        i += 1;
    }
    false
}

macro_rules! simd_harness {
    ($name:ident, $n:expr, $hay:expr, $unwind:expr) => {
        #[kani::proof]
        #[kani::unwind($unwind)]
        fn $name() {
            let needle: [u8; $n] = kani::any();
            let pos: usize = kani::any();
            // the engine draws the anchor from 1..len (every legal non-zero position)
            kani::assume(pos >= 1 && pos < $n);
            let hay: [u8; $hay] = kani::any();
            let len: usize = kani::any();
            kani::assume(len <= $hay);
            let h = &hay[..len];
            let searcher = unsafe { Avx2Searcher::with_position(needle, pos) };
            let got = unsafe { searcher.search_in(h) };
            let want = naive(h, &needle);
            assert!(got == want, "SIMD search disagrees with naive substring search");
            kani::cover!(got && len == $hay && hay[0] != needle[0]);
            kani::cover!(!got && len == $hay);
            kani::cover!(got && len == $n);
            kani::cover!(!got && len < $n);
        }
    };
}

simd_harness!(c10_simd_n2_h5, 2, 5, 8);
simd_harness!(c10_simd_n2_h6, 2, 6, 9);
simd_harness!(c10_simd_n3_h6, 3, 6, 9);
simd_harness!(c10_simd_n3_h8, 3, 8, 11);
simd_harness!(c10_simd_n4_h8, 4, 8, 11);
simd_harness!(c10_simd_n2_h10, 2, 10, 13);

/// The empty pattern occurs in every value.
#[kani::proof]
#[kani::unwind(4)]
fn c10_empty_pattern() {
    static B: [u8; 2] = [7, 0];
    let n: usize = kani::any();
    kani::assume(n <= 2);
    let v = LhsValue::Bytes((&B[..n]).into());
    let ctx_mu = std::mem::MaybeUninit::<ExecutionContext<'static, ()>>::uninit();
    // EmptySearcher ignores both arguments; the context is never read
    let ctx: &ExecutionContext<'static, ()> = unsafe { ctx_mu.assume_init_ref() };
    assert!(Compare::<()>::compare(&EmptySearcher, &v, ctx), "the empty pattern must occur in every value");
    kani::cover!(n == 0);
    std::mem::forget(v);
}
