//! Execution kernels reached through the real compile functions:
//!  * `IndexExpr::compile_with` (plain field, no index): the compiled closure
//!    is executed against a real ExecutionContext whose field is present or
//!    absent; the comparator is a harness probe (C01: absent left side gives
//!    the default, never calls the comparator);
//!  * `SimpleFunctionDefinition::compile`: omitted optional parameters are
//!    replaced by their declared defaults, in order (C03).
//! Child of `scheme`.
use super::*;
use crate::ast::field_expr::IdentifierExpr;
use crate::ast::index_expr::{Compare, IndexExpr};
use crate::compiler::DefaultCompiler;
use crate::execution_context::ExecutionContext;
use crate::filter::CompiledExpr;
use crate::functions::{
    FunctionArgs, FunctionDefinition, FunctionParam, SimpleFunctionArgKind, SimpleFunctionDefinition,
    SimpleFunctionImpl, SimpleFunctionOptParam, SimpleFunctionParam,
};
use crate::types::LhsValue;

static mut P_CALLS: u32 = 0;
static mut P_SAW: i64 = 0;
static mut P_ANSWER: bool = false;

struct Probe;

impl Compare<()> for Probe {
    fn compare<'e>(&self, value: &LhsValue<'e>, _: &'e ExecutionContext<'e, ()>) -> bool {
        unsafe {
            P_CALLS += 1;
            if let LhsValue::Int(i) = value {
                P_SAW = *i;
            }
            P_ANSWER
        }
    }
}

/// `rand::rng()` (reachable through the function-call branch of compile_with)
/// crashes kani-compiler; the harness never takes that branch.
fn rng_stub() -> rand::rngs::ThreadRng {
    kani::assume(false);
    loop {}
}

fn mk_scheme() -> Scheme {
    let mut b = SchemeBuilder::new();
    b.fields.push(FieldDefinition { name: Arc::from("f"), ty: Type::Int, optional: true });
    b.build()
}

#[kani::proof]
#[kani::unwind(2)]
#[kani::stub(rand::rngs::thread::rng, rng_stub)]
fn c01_absent_value_default() {
    let s = mk_scheme();
    let mut ctx = ExecutionContext::<()>::new(&s);
    let present: bool = kani::any();
    let x: i64 = kani::any();
    if present {
        let r = ctx.set_field_value(FieldRef { scheme: &s, index: 0 }, LhsValue::Int(x));
        assert!(r.is_ok(), "well-typed value refused");
        std::mem::forget(r);
    }
    let default: bool = kani::any();
    let answer: bool = kani::any();
    unsafe {
        P_ANSWER = answer;
    }
    let e = IndexExpr {
        identifier: IdentifierExpr::Field(Field { scheme: s.clone(), index: 0 }),
        indexes: Vec::new(),
    };
    let mut c = DefaultCompiler::<()>::new();
    let compiled = e.compile_with(&mut c, default, Probe);
    let got = match &compiled {
        CompiledExpr::One(one) => one.execute(&ctx),
        CompiledExpr::Vec(_) => {
            assert!(false, "a plain field comparison must compile to a single boolean");
            false
        }
    };
    unsafe {
        if present {
            assert!(got == answer, "present value: result must be the comparator's answer");
            assert!(P_CALLS == 1 && P_SAW == x, "comparator must see the field's value exactly once");
        } else {
            assert!(got == default, "absent left side: result must be the default (false, or the nil-not-equal setting for !=)");
            assert!(P_CALLS == 0, "comparator must not run on an absent value");
        }
    }
    kani::cover!(present && got);
    kani::cover!(!present && got);
    kani::cover!(!present && !got);
    std::mem::forget(compiled);
    std::mem::forget(ctx);
    std::mem::forget(s);
}

// ---------------------------------------------------------------- C03 ------

static mut F_LEN: usize = 0;
static mut F_ARGS: [i64; 4] = [0; 4];
static mut F_KINDS: [u8; 4] = [0; 4]; // 1 = present Int, 2 = absent, 3 = other

fn recording_impl<'i, 'a>(args: FunctionArgs<'i, 'a>) -> Option<LhsValue<'a>> {
    unsafe {
        F_LEN = args.len();
        let mut i = 0;
        while i < 4 {
            match args.next() {
                Some(Ok(LhsValue::Int(v))) => {
                    F_ARGS[i] = v;
                    F_KINDS[i] = 1;
                }
                Some(Err(_)) => F_KINDS[i] = 2,
                Some(other) => {
                    F_KINDS[i] = 3;
                    std::mem::forget(other);
                }
                None => break,
            }
            i += 1;
        }
    }
    None
}

/// One mandatory and two optional Int parameters with defaults d0, d1; a call
/// supplies 1, 2 or 3 arguments: the implementation sees the supplied values
/// followed by the defaults of exactly the omitted parameters, in order.
#[kani::proof]
#[kani::unwind(4)]
fn c03_optional_defaults() {
    let d0: i64 = kani::any();
    let d1: i64 = kani::any();
    let a: [i64; 3] = kani::any();
    let n: usize = kani::any();
    kani::assume(n >= 1 && n <= 3);
    let def = SimpleFunctionDefinition {
        params: vec![SimpleFunctionParam { arg_kind: SimpleFunctionArgKind::Field, val_type: Type::Int }],
        opt_params: vec![
            SimpleFunctionOptParam { arg_kind: SimpleFunctionArgKind::Both, default_value: LhsValue::Int(d0) },
            SimpleFunctionOptParam { arg_kind: SimpleFunctionArgKind::Both, default_value: LhsValue::Int(d1) },
        ],
        return_type: Type::Int,
        implementation: SimpleFunctionImpl::new(recording_impl),
    };
    assert!(def.arg_count() == (1, Some(2)));
    let p = [FunctionParam::Variable(Type::Int), FunctionParam::Variable(Type::Int), FunctionParam::Variable(Type::Int)];
    let f = match n {
        1 => def.compile(&mut p[..1].iter().cloned(), None),
        2 => def.compile(&mut p[..2].iter().cloned(), None),
        _ => def.compile(&mut p[..3].iter().cloned(), None),
    };
    let r = match n {
        1 => f(&mut std::iter::once(Ok(LhsValue::Int(a[0])))),
        2 => f(&mut crate::functions::ExactSizeChain::new(
            std::iter::once(Ok(LhsValue::Int(a[0]))),
            std::iter::once(Ok(LhsValue::Int(a[1]))),
        )),
        _ => f(&mut crate::functions::ExactSizeChain::new(
            crate::functions::ExactSizeChain::new(
                std::iter::once(Ok(LhsValue::Int(a[0]))),
                std::iter::once(Ok(LhsValue::Int(a[1]))),
            ),
            std::iter::once(Ok(LhsValue::Int(a[2]))),
        )),
    };
    assert!(r.is_none());
    unsafe {
        assert!(F_LEN == 3, "the implementation must receive one value per declared parameter");
        assert!(F_KINDS[0] == 1 && F_KINDS[1] == 1 && F_KINDS[2] == 1);
        assert!(F_ARGS[0] == a[0], "first supplied argument changed");
        let want1 = if n >= 2 { a[1] } else { d0 };
        let want2 = if n >= 3 { a[2] } else { d1 };
        assert!(F_ARGS[1] == want1, "second parameter: supplied value, else ITS default");
        assert!(F_ARGS[2] == want2, "third parameter: supplied value, else ITS default");
    }
    kani::cover!(n == 1 && d0 != d1);
    kani::cover!(n == 2 && d0 != d1 && a[1] != d0);
    kani::cover!(n == 3);
    std::mem::forget(f);
    std::mem::forget(def);
}
