//! C12 kernels: one walk step of every node kind (each node visits exactly its
//! children, in order, through the right visitor method), and the two visitors'
//! leaf logic on small trees. Child of `scheme` (builds Field / Function / List
//! values directly).
use super::*;
use crate::ast::field_expr::{ComparisonExpr, ComparisonOpExpr, IdentifierExpr};
use crate::ast::function_expr::{FunctionCallArgExpr, FunctionCallExpr};
use crate::ast::index_expr::IndexExpr;
use crate::ast::logical_expr::{LogicalExpr, LogicalOp, ParenthesizedExpr, QuantifierArgExpr, QuantifierOp, UnaryOp};
use crate::ast::visitor::{UsesListVisitor, UsesVisitor, Visitor};
use crate::ast::{Expr, ValueExpr};
use crate::rhs_types::ListName;
use crate::types::RhsValue;

const LOGICAL: u8 = 1;
const COMPARISON: u8 = 2;
const INDEX: u8 = 3;
const CALL: u8 = 4;
const ARG: u8 = 5;
const FIELD: u8 = 6;
const FUNCTION: u8 = 7;

/// Records which visitor method is called on which child; never descends.
struct Rec {
    kind: [u8; 6],
    addr: [usize; 6],
    n: usize,
}

impl Rec {
    fn new() -> Self {
        Rec { kind: [0; 6], addr: [0; 6], n: 0 }
    }
    fn push(&mut self, k: u8, a: usize) {
        if self.n < 6 {
            self.kind[self.n] = k;
            self.addr[self.n] = a;
        }
        self.n += 1;
    }
    fn is(&self, i: usize, k: u8, a: usize) -> bool {
        i < self.n && self.kind[i] == k && self.addr[i] == a
    }
}

impl<'a> Visitor<'a> for Rec {
    fn visit_logical_expr(&mut self, node: &'a LogicalExpr) {
        self.push(LOGICAL, node as *const _ as usize)
    }
    fn visit_comparison_expr(&mut self, node: &'a ComparisonExpr) {
        self.push(COMPARISON, node as *const _ as usize)
    }
    fn visit_index_expr(&mut self, node: &'a IndexExpr) {
        self.push(INDEX, node as *const _ as usize)
    }
    fn visit_function_call_expr(&mut self, node: &'a FunctionCallExpr) {
        self.push(CALL, node as *const _ as usize)
    }
    fn visit_function_call_arg_expr(&mut self, node: &'a FunctionCallArgExpr) {
        self.push(ARG, node as *const _ as usize)
    }
    fn visit_field(&mut self, f: &'a Field) {
        self.push(FIELD, f as *const _ as usize)
    }
    fn visit_function(&mut self, f: &'a Function) {
        self.push(FUNCTION, f as *const _ as usize)
    }
}

fn mk_scheme() -> Scheme {
    SchemeBuilder::new().build()
}

fn index_of_field(s: &Scheme, i: usize) -> IndexExpr {
    IndexExpr { identifier: IdentifierExpr::Field(Field { scheme: s.clone(), index: i }), indexes: Vec::new() }
}

fn cmp(s: &Scheme, i: usize) -> ComparisonExpr {
    ComparisonExpr { lhs: index_of_field(s, i), op: ComparisonOpExpr::IsTrue }
}

fn leaf(s: &Scheme, i: usize) -> LogicalExpr {
    LogicalExpr::Comparison(cmp(s, i))
}

fn a<T>(r: &T) -> usize {
    r as *const T as usize
}

/// LogicalExpr::walk, one step, every node kind.
#[kani::proof]
#[kani::unwind(5)]
fn c12_walk_logical_step() {
    let s = mk_scheme();
    let kind: u8 = kani::any();
    kani::assume(kind < 6);
    let node = match kind {
        0 => leaf(&s, 0),
        1 => LogicalExpr::Parenthesized(Box::new(ParenthesizedExpr { expr: leaf(&s, 0) })),
        2 => LogicalExpr::Unary { op: UnaryOp::Not, arg: Box::new(leaf(&s, 0)) },
        3 => LogicalExpr::Quantifier { op: QuantifierOp::Any, arg: Box::new(QuantifierArgExpr::IndexExpr(index_of_field(&s, 0))) },
        4 => LogicalExpr::Quantifier { op: QuantifierOp::All, arg: Box::new(QuantifierArgExpr::Logical(leaf(&s, 0))) },
        _ => LogicalExpr::Combining { op: LogicalOp::Or, items: vec![leaf(&s, 0), leaf(&s, 1), leaf(&s, 2)] },
    };
    let mut rec = Rec::new();
    node.walk(&mut rec);
    match &node {
        LogicalExpr::Comparison(c) => assert!(rec.n == 1 && rec.is(0, COMPARISON, a(c)), "a comparison node must visit its comparison"),
        LogicalExpr::Parenthesized(p) => assert!(rec.n == 1 && rec.is(0, LOGICAL, a(&p.expr)), "parentheses must visit the inner expression"),
        LogicalExpr::Unary { arg, .. } => assert!(rec.n == 1 && rec.is(0, LOGICAL, a(&**arg)), "not must visit its operand"),
        LogicalExpr::Quantifier { arg, .. } => match &**arg {
            QuantifierArgExpr::IndexExpr(ie) => assert!(rec.n == 1 && rec.is(0, INDEX, a(ie)), "any/all must visit its index-expression argument"),
            QuantifierArgExpr::Logical(le) => assert!(rec.n == 1 && rec.is(0, LOGICAL, a(le)), "any/all must visit its logical argument"),
        },
        LogicalExpr::Combining { items, .. } => {
            assert!(rec.n == 3, "a combining node must visit every operand");
            assert!(rec.is(0, LOGICAL, a(&items[0])) && rec.is(1, LOGICAL, a(&items[1])) && rec.is(2, LOGICAL, a(&items[2])),
                "operands must be visited in order");
        }
    }
    kani::cover!(kind == 5);
    kani::cover!(kind == 3);
    kani::cover!(kind == 4);
    std::mem::forget(node);
    std::mem::forget(s);
}

/// ComparisonExpr / IndexExpr / FunctionCallExpr / FunctionCallArgExpr walk, one step each.
#[kani::proof]
#[kani::unwind(5)]
fn c12_walk_value_step() {
    let s = mk_scheme();
    // comparison -> its left-hand side
    let c = cmp(&s, 0);
    let mut rec = Rec::new();
    c.walk(&mut rec);
    assert!(rec.n == 1 && rec.is(0, INDEX, a(&c.lhs)), "a comparison must visit its left-hand side");
    // index expression over a field -> the field
    let ie = index_of_field(&s, 1);
    let mut rec = Rec::new();
    ie.walk(&mut rec);
    match &ie.identifier {
        IdentifierExpr::Field(f) => assert!(rec.n == 1 && rec.is(0, FIELD, a(f)), "an index expression must visit its field"),
        _ => assert!(false),
    }
    // function call: every argument, then the function
    let call = FunctionCallExpr {
        function: Function { scheme: s.clone(), index: 0 },
        args: vec![
            FunctionCallArgExpr::IndexExpr(index_of_field(&s, 0)),
            FunctionCallArgExpr::Literal(RhsValue::Int(kani::any())),
            FunctionCallArgExpr::Logical(leaf(&s, 2)),
        ],
        context: None,
    };
    let mut rec = Rec::new();
    call.walk(&mut rec);
    assert!(rec.n == 4, "a call must visit every argument and the function");
    assert!(rec.is(0, ARG, a(&call.args[0])) && rec.is(1, ARG, a(&call.args[1])) && rec.is(2, ARG, a(&call.args[2])),
        "arguments must be visited in order");
    assert!(rec.is(3, FUNCTION, a(&call.function)));
    // each argument kind
    let which: u8 = kani::any();
    kani::assume(which < 3);
    let mut rec = Rec::new();
    call.args[which as usize].walk(&mut rec);
    match &call.args[which as usize] {
        FunctionCallArgExpr::IndexExpr(x) => assert!(rec.n == 1 && rec.is(0, INDEX, a(x)), "an index argument must be visited"),
        FunctionCallArgExpr::Literal(_) => assert!(rec.n == 0, "a literal argument has nothing to visit"),
        FunctionCallArgExpr::Logical(x) => assert!(rec.n == 1 && rec.is(0, LOGICAL, a(x)), "a logical argument must be visited"),
    }
    // index expression over a call -> the call
    let ie2 = IndexExpr { identifier: IdentifierExpr::FunctionCallExpr(call), indexes: Vec::new() };
    let mut rec = Rec::new();
    ie2.walk(&mut rec);
    match &ie2.identifier {
        IdentifierExpr::FunctionCallExpr(cl) => assert!(rec.n == 1 && rec.is(0, CALL, a(cl)), "an index expression over a call must visit the call"),
        _ => assert!(false),
    }
    kani::cover!(which == 1);
    kani::cover!(which == 2);
    std::mem::forget(ie2);
    std::mem::forget(ie);
    std::mem::forget(c);
    std::mem::forget(s);
}

/// The two visitors on one comparison node: uses(f) iff the node's field is f;
/// uses_list(f) iff additionally the comparison is `in $list`. The operator
/// variant is concrete per harness and the unwinding bound is 2: CBMC does not
/// fold the tags inside the node, so the visitors' recursion into (infeasible)
/// call-argument arms is cut by the bound, with its unwinding assertions on.
macro_rules! uses_harness {
    ($name:ident, $in_list:expr) => {
        #[kani::proof]
        #[kani::unwind(2)]
        fn $name() {
            let mut b = SchemeBuilder::new();
            b.lists.push((Type::Int, Box::new(crate::list_matcher::NeverList {})));
            let s = b.build();
            let other = mk_scheme();
            let i: usize = kani::any();
            let j: usize = kani::any();
            kani::assume(i < 4 && j < 4);
            let node = LogicalExpr::Comparison(ComparisonExpr {
                lhs: index_of_field(&s, j),
                op: if $in_list {
                    ComparisonOpExpr::InList { list: List { scheme: s.clone(), index: 0 }, name: ListName::from(String::from("l")) }
                } else {
                    ComparisonOpExpr::IsTrue
                },
            });
            let mut v = UsesVisitor::new(FieldRef { scheme: &s, index: i });
            v.visit_logical_expr(&node);
            assert!(v.uses() == (i == j), "uses(field) must be true exactly when the field occurs");
            let mut vl = UsesListVisitor::new(FieldRef { scheme: &s, index: i });
            vl.visit_logical_expr(&node);
            assert!(vl.uses() == (i == j && $in_list), "uses_list(field) must be true exactly when the field occurs in an `in $list` comparison");
            // a field of another scheme with the same index is a different field
            let mut vo = UsesVisitor::new(FieldRef { scheme: &other, index: j });
            vo.visit_logical_expr(&node);
            assert!(!vo.uses(), "a field of a different scheme must not be reported as used");
            kani::cover!(v.uses());
            kani::cover!(!v.uses());
            kani::cover!(vl.uses() == $in_list && i == j);
            std::mem::forget(node);
            std::mem::forget(s);
            std::mem::forget(other);
        }
    };
}

uses_harness!(c12_uses_comparison_plain, false);
uses_harness!(c12_uses_comparison_in_list, true);
