//! C17 kernels: the two built-in list matchers. Child module of `list_matcher`.
use super::*;
use std::net::{IpAddr, Ipv4Addr, Ipv6Addr};

fn any_value() -> LhsValue<'static> {
    let k: u8 = kani::any();
    kani::assume(k < 4);
    match k {
        0 => LhsValue::Int(kani::any()),
        1 => LhsValue::Bool(kani::any()),
        2 => {
            if kani::any() {
                LhsValue::Ip(IpAddr::V4(Ipv4Addr::from(kani::any::<u32>())))
            } else {
                LhsValue::Ip(IpAddr::V6(Ipv6Addr::from(kani::any::<u128>())))
            }
        }
        _ => {
            // borrowed bytes: no allocation
            static B: [u8; 2] = [0xff, 0x00];
            let n: usize = kani::any();
            kani::assume(n <= 2);
            LhsValue::Bytes((&B[..n]).into())
        }
    }
}

fn any_name() -> &'static str {
    match kani::any::<u8>() % 3 {
        0 => "",
        1 => "a",
        _ => "x.y_0",
    }
}

#[kani::proof]
#[kani::unwind(4)]
fn c17_builtin_lists() {
    let v = any_value();
    let name = any_name();
    let always = AlwaysListMatcher {};
    let never = NeverListMatcher {};
    let a = always.match_value(name, &v);
    let n = never.match_value(name, &v);
    assert!(a, "the always-list must match every value");
    assert!(!n, "the never-list must match no value");
    kani::cover!(matches!(v, LhsValue::Int(i64::MIN)));
    kani::cover!(matches!(v, LhsValue::Ip(IpAddr::V6(_))));
    kani::cover!(matches!(v, LhsValue::Bytes(_)));
    std::mem::forget(v);
}

/// Matchers created from the definitions behave the same, before and after clear().
#[kani::proof]
#[kani::unwind(4)]
fn c17_builtin_definitions() {
    let v = LhsValue::Int(kani::any());
    let mut a = AlwaysList {}.new_matcher();
    let mut n = NeverList {}.new_matcher();
    assert!(a.match_value("l", &v), "AlwaysList.new_matcher() must match");
    assert!(!n.match_value("l", &v), "NeverList.new_matcher() must not match");
    a.clear();
    n.clear();
    assert!(a.match_value("l", &v), "always-list after clear() must still match");
    assert!(!n.match_value("l", &v), "never-list after clear() must still not match");
    kani::cover!(matches!(v, LhsValue::Int(0)));
    std::mem::forget(a);
    std::mem::forget(n);
}

fn allowed(c: u8) -> bool {
    (b'a'..=b'z').contains(&c) || (b'0'..=b'9').contains(&c) || c == b'_' || c == b'.'
}

/// `$name`: the name is the longest run of a-z, 0-9, `_`, `.` after the dollar;
/// an empty run, or one that starts or ends with a dot, is rejected; anything
/// else (an upper-case letter, for instance) ends the name and stays in the rest.
#[kani::proof]
#[kani::unwind(4)]
fn c17_list_name_lex() {
    use crate::lex::Lex;
    use crate::rhs_types::ListName;
    let c: [u8; 2] = [kani::any(), kani::any()];
    kani::assume(c[0] < 0x80 && c[1] < 0x80);
    let buf: [u8; 3] = [b'$', c[0], c[1]];
    let len: usize = kani::any();
    kani::assume(len >= 1 && len <= 3);
    let s = unsafe { std::str::from_utf8_unchecked(&buf[..len]) };
    let n = len - 1;
    let mut run = 0;
    if n >= 1 && allowed(c[0]) {
        run = 1;
        if n >= 2 && allowed(c[1]) {
            run = 2;
        }
    }
    let bad_dot = run > 0 && (c[0] == b'.' || c[run - 1] == b'.');
    let res = ListName::lex(s);
    match &res {
        Ok((name, rest)) => {
            assert!(run > 0 && !bad_dot, "invalid list name accepted");
            let nb = name.as_str().as_bytes();
            assert!(nb.len() == run && nb[0] == c[0] && (run < 2 || nb[1] == c[1]),
                "list name is not the run of a-z, 0-9, _, . after the dollar");
            assert!(rest.len() == n - run, "list name consumed a different number of characters");
        }
        Err(_) => assert!(run == 0 || bad_dot, "valid list name rejected"),
    }
    kani::cover!(res.is_ok() && run == 1 && n == 2 && c[1] == b'B');
    kani::cover!(res.is_ok() && run == 2 && c[1] == b'_');
    kani::cover!(res.is_err() && c[0] == b'A');
    kani::cover!(res.is_err() && run == 2 && c[1] == b'.');
    std::mem::forget(res);
}
