//! C17 kernels: the two built-in list matchers. Child module of `list_matcher`.
use super::*;
use std::net::{IpAddr, Ipv4Addr, Ipv6Addr};

fn any_value() -> LhsValue<'static> {
    let k: u8 = kani::any();
    kani::assume(k < 4);
    match k {
        0 => LhsValue::Int(kani::any()),
        1 => LhsValue::Bool(kani::any()),
        2 => {
            if kani::any() {
                LhsValue::Ip(IpAddr::V4(Ipv4Addr::from(kani::any::<u32>())))
            } else {
                LhsValue::Ip(IpAddr::V6(Ipv6Addr::from(kani::any::<u128>())))
            }
        }
        _ => {
            // borrowed bytes: no allocation
            static B: [u8; 2] = [0xff, 0x00];
            let n: usize = kani::any();
            kani::assume(n <= 2);
            LhsValue::Bytes((&B[..n]).into())
        }
    }
}

fn any_name() -> &'static str {
    match kani::any::<u8>() % 3 {
        0 => "",
        1 => "a",
        _ => "x.y_0",
    }
}

#[kani::proof]
#[kani::unwind(4)]
fn c17_builtin_lists() {
    let v = any_value();
    let name = any_name();
    let always = AlwaysListMatcher {};
    let never = NeverListMatcher {};
    let a = always.match_value(name, &v);
    let n = never.match_value(name, &v);
    assert!(a, "the always-list must match every value");
    assert!(!n, "the never-list must match no value");
    kani::cover!(matches!(v, LhsValue::Int(i64::MIN)));
    kani::cover!(matches!(v, LhsValue::Ip(IpAddr::V6(_))));
    kani::cover!(matches!(v, LhsValue::Bytes(_)));
    std::mem::forget(v);
}

/// Matchers created from the definitions behave the same, before and after clear().
#[kani::proof]
#[kani::unwind(4)]
fn c17_builtin_definitions() {
    let v = LhsValue::Int(kani::any());
    let mut a = AlwaysList {}.new_matcher();
    let mut n = NeverList {}.new_matcher();
    assert!(a.match_value("l", &v), "AlwaysList.new_matcher() must match");
    assert!(!n.match_value("l", &v), "NeverList.new_matcher() must not match");
    a.clear();
    n.clear();
    assert!(a.match_value("l", &v), "always-list after clear() must still match");
    assert!(!n.match_value("l", &v), "never-list after clear() must still not match");
    kani::cover!(matches!(v, LhsValue::Int(0)));
    std::mem::forget(a);
    std::mem::forget(n);
}
