//! LhsValue array kernels on small arrays: element access (C02), homogeneity
//! of construction (C08), order-preserving filter-map used by map-each function
//! application (C03). Child of `lhs_types::array`.
use super::*;

fn ints<'a>(v: &'a [LhsValue<'a>]) -> Array<'a> {
    Array { val_type: CompoundType::from_type(Type::Int), data: InnerArray::Borrowed(v) }
}

fn as_int(v: Option<&LhsValue<'_>>) -> Option<i64> {
    match v {
        Some(LhsValue::Int(i)) => Some(*i),
        _ => None,
    }
}

/// `[n]` on an array: the n-th element when n < len (including the last one),
/// no value otherwise (any n up to u32::MAX).
#[kani::proof]
#[kani::unwind(5)]
fn c02_array_get_extract() {
    let a: i64 = kani::any();
    let b: i64 = kani::any();
    let c: i64 = kani::any();
    let vals = [LhsValue::Int(a), LhsValue::Int(b), LhsValue::Int(c)];
    let len: usize = kani::any();
    kani::assume(len <= 3);
    let idx: u32 = kani::any();
    let arr = ints(&vals[..len]);
    let want = if (idx as usize) < len { Some([a, b, c][idx as usize]) } else { None };
    assert!(arr.len() == len && arr.is_empty() == (len == 0));
    assert!(as_int(arr.get(idx as usize)) == want, "get(n) must be the n-th element iff n < len");
    let ex = ints(&vals[..len]).extract(idx as usize);
    let got = match &ex {
        Some(LhsValue::Int(i)) => Some(*i),
        Some(_) => {
            assert!(false, "element changed its type");
            None
        }
        None => None,
    };
    assert!(got == want, "extract(n) must be the n-th element iff n < len");
    kani::cover!(want.is_some() && idx as usize == len - 1 && len == 3);
    kani::cover!(want.is_none() && idx as usize == len);
    kani::cover!(want.is_none() && idx == u32::MAX);
    kani::cover!(want.is_some() && idx == 0);
    std::mem::forget(ex);
    std::mem::forget(arr);
}

/// Same on an owned array (extract takes the element out of the vector).
#[kani::proof]
#[kani::unwind(5)]
fn c02_array_extract_owned() {
    let a: i64 = kani::any();
    let b: i64 = kani::any();
    let c: i64 = kani::any();
    let idx: u32 = kani::any();
    let arr = Array { val_type: CompoundType::from_type(Type::Int), data: InnerArray::Owned(vec![LhsValue::Int(a), LhsValue::Int(b), LhsValue::Int(c)]) };
    let want = if idx < 3 { Some([a, b, c][idx as usize]) } else { None };
    let ex = arr.extract(idx as usize);
    let got = match &ex {
        Some(LhsValue::Int(i)) => Some(*i),
        _ => None,
    };
    assert!(got == want, "extract(n) on an owned array must be the n-th element iff n < len");
    kani::cover!(idx == 2);
    kani::cover!(idx == 3);
    std::mem::forget(ex);
}

fn pool(k: u8) -> Type {
    match k {
        0 => Type::Bool,
        1 => Type::Int,
        2 => Type::Bytes,
        3 => Type::Ip,
        4 => Type::Array(CompoundType::from_type(Type::Int)),
        _ => Type::Map(CompoundType::from_type(Type::Int)),
    }
}

/// Arrays can only be built homogeneous: construction from values succeeds
/// exactly when every value has the declared element type.
#[kani::proof]
#[kani::unwind(4)]
fn c08_array_homogeneous() {
    let k: u8 = kani::any();
    kani::assume(k < 6);
    let declared = pool(k);
    let x: i64 = kani::any();
    let second_is_bool: bool = kani::any();
    let second = if second_is_bool { LhsValue::Bool(kani::any()) } else { LhsValue::Int(kani::any()) };
    let res = Array::try_from_vec(declared, vec![LhsValue::Int(x), second]);
    let want = k == 1 && !second_is_bool;
    match &res {
        Ok(arr) => {
            assert!(want, "array built from values that do not all have the declared element type");
            assert!(arr.value_type() == declared && arr.len() == 2);
            assert!(arr.get_type() == Type::Array(CompoundType::from_type(declared)));
        }
        Err(e) => {
            assert!(!want, "homogeneous array refused");
            assert!(e.actual == if k == 1 { Type::Bool } else { Type::Int }, "the error must name the offending element's type");
        }
    }
    kani::cover!(res.is_ok());
    kani::cover!(res.is_err() && k == 1);
    kani::cover!(res.is_err() && k == 4);
    std::mem::forget(res);
}

/// filter_map_to on an owned array keeps the surviving elements in order.
#[kani::proof]
#[kani::unwind(5)]
fn c03_filter_map_order() {
    let a: i64 = kani::any();
    let b: i64 = kani::any();
    let c: i64 = kani::any();
    let d: i64 = kani::any();
    kani::assume(a != i64::MIN && b != i64::MIN && c != i64::MIN && d != i64::MIN);
    let arr = Array { val_type: CompoundType::from_type(Type::Int), data: InnerArray::Owned(vec![LhsValue::Int(a), LhsValue::Int(b), LhsValue::Int(c), LhsValue::Int(d)]) };
    // the mapped function drops the elements equal to `drop_val`
    let drop_val: i64 = kani::any();
    let out = arr.filter_map_to(Type::Int, |v| match v {
        LhsValue::Int(i) if i == drop_val => None,
        other => Some(other),
    });
    let src = [a, b, c, d];
    let mut want = [i64::MIN; 4];
    let mut n = 0;
    let mut i = 0;
    while i < 4 {
        if src[i] != drop_val {
            want[n] = src[i];
            n += 1;
        }
        i += 1;
    }
    assert!(out.len() == n, "dropped elements must disappear, the others stay");
    let mut i = 0;
    while i < 4 {
        if i < n {
            assert!(as_int(out.get(i)) == Some(want[i]), "surviving elements must keep their order");
        }
        i += 1;
    }
    kani::cover!(n == 3 && b == drop_val);
    kani::cover!(n == 2);
    kani::cover!(n == 4);
    std::mem::forget(out);
}
