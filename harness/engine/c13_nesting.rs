//! C13 / C05 kernel: the nesting counter. Child of `ast::parse`.
use super::*;
use crate::scheme::Scheme;

fn dangling_scheme() -> &'static Scheme {
    // with_increased_nesting never looks at the scheme: a harness-owned, never
    // dereferenced placeholder avoids building a registry (hash map) here.
    static mut SLOT: std::mem::MaybeUninit<Scheme> = std::mem::MaybeUninit::uninit();
    unsafe { &*(&raw const SLOT).cast::<Scheme>() }
}

#[kani::proof]
fn c13_nesting_step() {
    let scheme = dangling_scheme();
    let mut p = FilterParser::new(scheme);
    assert!(p.max_nesting_depth() == 128, "default nesting limit must be 128");
    assert!(p.current_nesting_depth as u64 == 0);
    let limit: u16 = kani::any();
    let cur: u16 = kani::any();
    p.set_max_nesting_depth(limit);
    assert!(p.max_nesting_depth() == limit && p.settings().max_nesting_depth == limit);
    // the other limits must survive nesting too (they are enforced inside nested constructs)
    let star: usize = kani::any();
    let rsize: usize = kani::any();
    let dsize: usize = kani::any();
    p.wildcard_set_star_limit(star);
    p.regex_set_compiled_size_limit(rsize);
    p.regex_set_dfa_size_limit(dsize);
    // `as _`: the harness does not depend on the counter's integer type
    p.current_nesting_depth = cur as _;
    let res = p.with_increased_nesting("x");
    match &res {
        Ok(nested) => {
            assert!(cur < limit, "accepted although the depth already reached the limit");
            assert!(nested.current_nesting_depth as u64 == cur as u64 + 1, "depth not incremented by one");
            assert!(nested.settings == p.settings, "settings changed by nesting");
            assert!(nested.wildcard_get_star_limit() == star && nested.regex_get_compiled_size_limit() == rsize
                && nested.regex_get_dfa_size_limit() == dsize && nested.max_nesting_depth() == limit,
                "a nested parser must keep every configured limit");
            assert!(std::ptr::eq(nested.scheme, p.scheme));
        }
        Err((LexErrorKind::NestingLimitExceeded { limit: l }, span)) => {
            assert!(cur >= limit, "rejected although below the limit");
            assert!(*l == limit, "error reports a different limit");
            assert!(span.len() == 1);
        }
        Err(_) => assert!(false, "unexpected error kind"),
    }
    std::mem::forget(res);
    kani::cover!(cur == limit && limit == 0);
    kani::cover!(cur < limit && cur + 1 == limit);
    kani::cover!(limit == u16::MAX && cur == u16::MAX);
}

/// d-fold nesting from a fresh parser: accepted iff d <= limit (induction over
/// with_increased_nesting alone, symbolic limit, d up to 9).
#[kani::proof]
#[kani::unwind(11)]
fn c13_nesting_chain() {
    let scheme = dangling_scheme();
    let limit: u16 = kani::any();
    let d: u16 = kani::any();
    kani::assume(d <= 9);
    let settings = ParserSettings { max_nesting_depth: limit, ..ParserSettings::default() };
    let mut p = FilterParser::with_settings(scheme, settings);
    let mut ok = true;
    let mut i = 0;
    while i < d {
        match p.with_increased_nesting("") {
            Ok(n) => p = n,
            Err(e) => {
                std::mem::forget(e);
                ok = false;
                break;
            }
        }
        i += 1;
    }
    assert!(ok == (d <= limit), "d nested constructs must be accepted iff d <= limit");
    kani::cover!(ok && d == 9);
    kani::cover!(!ok && limit == 8);
    kani::cover!(ok && d == limit && d > 0);
}

/// ParserSettings defaults and the other setters/getters are inverse.
#[kani::proof]
fn c13_settings_accessors() {
    let scheme = dangling_scheme();
    let mut p = FilterParser::new(scheme);
    let d = ParserSettings::default();
    assert!(d.max_nesting_depth == 128 && d.wildcard_star_limit == usize::MAX);
    let a: usize = kani::any();
    let b: usize = kani::any();
    let c: usize = kani::any();
    p.regex_set_compiled_size_limit(a);
    p.regex_set_dfa_size_limit(b);
    p.wildcard_set_star_limit(c);
    assert!(p.regex_get_compiled_size_limit() == a);
    assert!(p.regex_get_dfa_size_limit() == b);
    assert!(p.wildcard_get_star_limit() == c);
    assert!(p.max_nesting_depth() == 128);
    kani::cover!(a == 0 && c == 3);
}

/// Same as c13_nesting_chain but deep enough to cross 255/256: every limit up
/// to 300 against 300 nested constructs.
#[kani::proof]
#[kani::unwind(303)]
fn c13_nesting_chain_deep() {
    let scheme = dangling_scheme();
    let limit: u16 = kani::any();
    kani::assume(limit <= 300);
    let settings = ParserSettings { max_nesting_depth: limit, ..ParserSettings::default() };
    let mut p = FilterParser::with_settings(scheme, settings);
    let mut accepted: u16 = 0;
    let mut i = 0;
    while i < 300 {
        match p.with_increased_nesting("") {
            Ok(n) => {
                p = n;
                accepted += 1;
            }
            Err(e) => {
                std::mem::forget(e);
                break;
            }
        }
        i += 1;
    }
    assert!(accepted == limit, "exactly `limit` nested constructs must be accepted before the first rejection");
    kani::cover!(limit == 256);
    kani::cover!(limit == 300);
    kani::cover!(limit == 0);
}
