//! C01 / C07 kernel: the precedence order of the logical operators. (Harnesses
//! on the lex_enum! alias tables were tried with symbolic and with concrete
//! token text and dropped: every discarded lexer error enters the drop glue of
//! all LexErrorKind variants in CBMC, DESIGN 3.2 e.) Child of `ast::logical_expr`.
use super::*;

/// Binding strength: not > and > xor > or, as the derived order Or < Xor < And
/// that precedence climbing compares.
#[kani::proof]
fn c01_precedence_order() {
    let rank = |op: LogicalOp| match op {
        LogicalOp::Or => 0u8,
        LogicalOp::Xor => 1,
        LogicalOp::And => 2,
    };
    let pick = |k: u8| match k {
        0 => LogicalOp::Or,
        1 => LogicalOp::Xor,
        _ => LogicalOp::And,
    };
    let a: u8 = kani::any();
    let b: u8 = kani::any();
    kani::assume(a < 3 && b < 3);
    let (x, y) = (pick(a), pick(b));
    assert!((x < y) == (rank(x) < rank(y)), "derived order of LogicalOp is not or < xor < and");
    assert!((Some(x) <= Some(y)) == (rank(x) <= rank(y)));
    // `None` (no operator / no minimum) is below every operator
    assert!(None < Some(x));
    assert!(LogicalOp::Or < LogicalOp::Xor && LogicalOp::Xor < LogicalOp::And);
    kani::cover!(x == LogicalOp::And && y == LogicalOp::Or);
}

// A per-alias harness (`OrderingOp::lex("ge 1")` and `">= 1"`, 5 + 6 discarded errors, unwind 3)
// was also tried: it did not finish in 35 minutes.
