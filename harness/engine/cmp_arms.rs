//! Comparison-arm harnesses: the REAL `ComparisonExpr::compile_with_compiler`
//! (operator -> comparator wiring, nil default, `in {..}` set construction,
//! `contains` dispatch, `in $list` delegation) is executed on a constructed
//! node; only its continuation `IndexExpr::compile_with` is replaced (Kani
//! stub) by a harness function that applies the comparator the real code built
//! to a symbolic left-hand value and records (default, result).
//! Child of `scheme` (needs to build Field / List / Scheme values directly).
use super::*;
use crate::ast::Expr;
use crate::ast::field_expr::{ComparisonExpr, ComparisonOpExpr, IdentifierExpr, IntOp, OrderingOp};
use crate::ast::index_expr::{Compare, IndexExpr};
use crate::compiler::{Compiler, DefaultCompiler};
use crate::execution_context::ExecutionContext;
use crate::filter::{CompiledExpr, CompiledOneExpr};
use crate::rhs_types::{BytesExpr, BytesFormat, ExplicitIpRange, IntRange, IpCidr, IpRange, ListName, Wildcard};
use crate::types::{LhsValue, RhsValue, RhsValues};
use std::net::{IpAddr, Ipv4Addr, Ipv6Addr};

static mut REC_DEFAULT: bool = false;
static mut REC_RESULT: bool = false;
static mut REC_CALLS: u32 = 0;

// the symbolic left-hand value handed to the comparator
static mut LHS_KIND: u8 = 0; // 0 Int, 1 Bool, 2 Ip, 3 Bytes
static mut LHS_INT: i64 = 0;
static mut LHS_BOOL: bool = false;
static mut LHS_IP_V4: bool = false;
static mut LHS_IP_BITS: u128 = 0;
static mut LHS_BYTES: [u8; 16] = [0; 16];
static mut LHS_BYTES_LEN: usize = 0;
static mut CTX: *const u8 = std::ptr::null();

fn lhs_ip() -> IpAddr {
    unsafe {
        if LHS_IP_V4 { IpAddr::V4(Ipv4Addr::from(LHS_IP_BITS as u32)) } else { IpAddr::V6(Ipv6Addr::from(LHS_IP_BITS)) }
    }
}

/// The symbolic left-hand value kept in the statics above.
fn lhs_value() -> LhsValue<'static> {
    unsafe {
        match LHS_KIND {
            0 => LhsValue::Int(LHS_INT),
            1 => LhsValue::Bool(LHS_BOOL),
            2 => LhsValue::Ip(lhs_ip()),
            _ => {
                let b: &'static [u8; 16] = &*(&raw const LHS_BYTES);
                LhsValue::Bytes((&b[..LHS_BYTES_LEN]).into())
            }
        }
    }
}

/// Replacement for `IndexExpr::compile_with` (same signature).
fn compile_with_stub<C: Compiler>(
    this: IndexExpr,
    _compiler: &mut C,
    default: bool,
    comp: impl Compare<C::U>,
) -> CompiledExpr<C::U> {
    let ctx_mu = std::mem::MaybeUninit::<ExecutionContext<'_, C::U>>::uninit();
    let ctx: &ExecutionContext<'_, C::U> = unsafe {
        if CTX.is_null() { ctx_mu.assume_init_ref() } else { &*(CTX as *const ExecutionContext<'_, C::U>) }
    };
    let v: LhsValue<'_> = lhs_value();
    let r = comp.compare(&v, ctx);
    unsafe {
        REC_DEFAULT = default;
        REC_RESULT = r;
        REC_CALLS += 1;
    }
    std::mem::forget(v);
    std::mem::forget(this);
    std::mem::forget(comp);
    CompiledExpr::One(CompiledOneExpr::new(|_| false))
}

/// `rand::rng()` crashes kani-compiler when reachable; only the `contains`
/// arm calls it and harnesses that reach that arm use rewrite R1 instead.
fn rng_stub() -> rand::rngs::ThreadRng {
    kani::assume(false);
    loop {}
}

fn mk_scheme(ty: Type, nil_false: bool) -> Scheme {
    let mut b = SchemeBuilder::new();
    b.fields.push(FieldDefinition { name: Arc::from("f"), ty, optional: true });
    b.nil_not_equal_is_false = nil_false;
    b.build()
}

fn field_expr(s: &Scheme, op: ComparisonOpExpr) -> ComparisonExpr {
    ComparisonExpr {
        lhs: IndexExpr {
            identifier: IdentifierExpr::Field(Field { scheme: s.clone(), index: 0 }),
            indexes: Vec::new(),
        },
        op,
    }
}

/// Under Kani: compile the node; the continuation stub records (default, result).
#[cfg(not(test))]
fn run(e: ComparisonExpr) -> (bool, bool) {
    let mut c = DefaultCompiler::<()>::new();
    let compiled = e.compile_with_compiler(&mut c);
    std::mem::forget(compiled);
    unsafe {
        assert!(REC_CALLS == 1, "the comparison must be compiled through exactly one compile_with call");
        (REC_DEFAULT, REC_RESULT)
    }
}

/// Native replay (`cargo kani playback` builds with cfg(test); Kani stubs do not
/// exist there): the same node is compiled by the unmodified code and executed
/// against a real context - once with the field absent (that result is the
/// default the arm selected) and once with the concrete left-hand value set.
#[cfg(test)]
fn run(e: ComparisonExpr) -> (bool, bool) {
    let s = match &e.lhs.identifier {
        IdentifierExpr::Field(f) => f.scheme().clone(),
        _ => unreachable!(),
    };
    let compiled = e.compile_with_compiler(&mut DefaultCompiler::<()>::new());
    let exec = |ctx: &ExecutionContext<'_, ()>| match &compiled {
        CompiledExpr::One(one) => one.execute(ctx),
        CompiledExpr::Vec(_) => panic!("a plain field comparison must compile to a single boolean"),
    };
    let mut ctx = unsafe {
        if CTX.is_null() { ExecutionContext::<()>::new(&s) } else { std::ptr::read(CTX as *const ExecutionContext<'static, ()>) }
    };
    let default = exec(&ctx);
    ctx.set_field_value(FieldRef { scheme: &s, index: 0 }, lhs_value()).unwrap();
    let got = exec(&ctx);
    std::mem::forget(ctx);
    (default, got)
}

fn any_op() -> OrderingOp {
    let k: u8 = kani::any();
    kani::assume(k < 6);
    match k {
        0 => OrderingOp::Equal,
        1 => OrderingOp::NotEqual,
        2 => OrderingOp::GreaterThanEqual,
        3 => OrderingOp::LessThanEqual,
        4 => OrderingOp::GreaterThan,
        _ => OrderingOp::LessThan,
    }
}

fn meaning(op: OrderingOp, lt: bool, eq: bool, gt: bool) -> bool {
    match op {
        OrderingOp::Equal => eq,
        OrderingOp::NotEqual => lt || gt,
        OrderingOp::GreaterThanEqual => gt || eq,
        OrderingOp::LessThanEqual => lt || eq,
        OrderingOp::GreaterThan => gt,
        OrderingOp::LessThan => lt,
    }
}

/// absent left side: false, except != whose result is the nil-not-equal setting
fn want_default(op: OrderingOp, nil_false: bool) -> bool {
    op == OrderingOp::NotEqual && !nil_false
}

// ---------------------------------------------------------------- C01 ------

#[kani::proof]
#[kani::unwind(4)]
#[kani::stub(crate::ast::index_expr::IndexExpr::compile_with, compile_with_stub)]
#[kani::stub(rand::rngs::thread::rng, rng_stub)]
fn c01_cmp_int() {
    let nil_false: bool = kani::any();
    let s = mk_scheme(Type::Int, nil_false);
    let a: i64 = kani::any();
    let b: i64 = kani::any();
    let op = any_op();
    unsafe {
        LHS_KIND = 0;
        LHS_INT = a;
    }
    let (default, got) = run(field_expr(&s, ComparisonOpExpr::Ordering { op, rhs: RhsValue::Int(b) }));
    assert!(got == meaning(op, a < b, a == b, a > b), "integer comparison differs from the operator's mathematical meaning");
    assert!(default == want_default(op, nil_false), "absent left side: false except != = nil-not-equal setting");
    assert!(s.nil_not_equal_behavior() == !nil_false);
    kani::cover!(got && op == OrderingOp::LessThan && a == i64::MIN);
    kani::cover!(!got && op == OrderingOp::GreaterThanEqual && b == i64::MAX);
    kani::cover!(default);
    kani::cover!(!default && op == OrderingOp::NotEqual);
    std::mem::forget(s);
}

#[kani::proof]
#[kani::unwind(4)]
#[kani::stub(crate::ast::index_expr::IndexExpr::compile_with, compile_with_stub)]
#[kani::stub(rand::rngs::thread::rng, rng_stub)]
fn c01_cmp_bitwise_and() {
    let nil_false: bool = kani::any();
    let s = mk_scheme(Type::Int, nil_false);
    let a: i64 = kani::any();
    let b: i64 = kani::any();
    unsafe {
        LHS_KIND = 0;
        LHS_INT = a;
    }
    let (default, got) = run(field_expr(&s, ComparisonOpExpr::Int { op: IntOp::BitwiseAnd, rhs: b }));
    assert!(got == (a & b != 0), "bitwise-and test is not `value & rhs != 0`");
    assert!(!default, "absent left side must give false");
    kani::cover!(got && a < 0 && b == i64::MIN);
    kani::cover!(!got && a != 0 && b != 0);
    std::mem::forget(s);
}

#[kani::proof]
#[kani::unwind(4)]
#[kani::stub(crate::ast::index_expr::IndexExpr::compile_with, compile_with_stub)]
#[kani::stub(rand::rngs::thread::rng, rng_stub)]
fn c01_cmp_is_true() {
    let s = mk_scheme(Type::Bool, kani::any());
    let v: bool = kani::any();
    unsafe {
        LHS_KIND = 1;
        LHS_BOOL = v;
    }
    let (default, got) = run(field_expr(&s, ComparisonOpExpr::IsTrue));
    assert!(got == v, "a bare boolean field must evaluate to its value");
    assert!(!default, "absent boolean field must give false");
    kani::cover!(got);
    kani::cover!(!got);
    std::mem::forget(s);
}

#[kani::proof]
#[kani::unwind(18)]
#[kani::stub(crate::ast::index_expr::IndexExpr::compile_with, compile_with_stub)]
#[kani::stub(rand::rngs::thread::rng, rng_stub)]
fn c01_cmp_ip() {
    let nil_false: bool = kani::any();
    let s = mk_scheme(Type::Ip, nil_false);
    let a4: bool = kani::any();
    let ab: u128 = kani::any();
    let b4: bool = kani::any();
    let bb: u128 = kani::any();
    kani::assume(!a4 || ab <= u32::MAX as u128);
    kani::assume(!b4 || bb <= u32::MAX as u128);
    let op = any_op();
    unsafe {
        LHS_KIND = 2;
        LHS_IP_V4 = a4;
        LHS_IP_BITS = ab;
    }
    let rhs = if b4 { IpAddr::V4(Ipv4Addr::from(bb as u32)) } else { IpAddr::V6(Ipv6Addr::from(bb)) };
    let (default, got) = run(field_expr(&s, ComparisonOpExpr::Ordering { op, rhs: RhsValue::Ip(rhs) }));
    let want = if a4 == b4 { meaning(op, ab < bb, ab == bb, ab > bb) } else { op == OrderingOp::NotEqual };
    assert!(got == want, "IP comparison differs from per-family order (mixed families: only != holds)");
    assert!(default == want_default(op, nil_false), "absent left side: false except != = nil-not-equal setting");
    kani::cover!(got && a4 != b4);
    kani::cover!(!got && a4 != b4 && op == OrderingOp::LessThan);
    kani::cover!(got && !a4 && !b4 && op == OrderingOp::GreaterThan);
    kani::cover!(got && a4 && b4 && op == OrderingOp::LessThanEqual && ab == bb);
    std::mem::forget(s);
}

fn lex_lt_eq_gt(a: &[u8], b: &[u8]) -> (bool, bool, bool) {
    // lexicographic byte order with constant loop bounds (<= 3 bytes)
    let mut i = 0;
    while i < 3 {
        if i >= a.len() || i >= b.len() {
            break;
        }
        if a[i] < b[i] {
            return (true, false, false);
        }
        if a[i] > b[i] {
            return (false, false, true);
        }
        i += 1;
    }
    (a.len() < b.len(), a.len() == b.len(), a.len() > b.len())
}

macro_rules! cmp_bytes_harness {
    ($name:ident, $rlen:expr) => {
        #[kani::proof]
        #[kani::unwind(6)]
        #[kani::stub(crate::ast::index_expr::IndexExpr::compile_with, compile_with_stub)]
        #[kani::stub(rand::rngs::thread::rng, rng_stub)]
        fn $name() {
            let nil_false: bool = kani::any();
            let s = mk_scheme(Type::Bytes, nil_false);
            let l: [u8; 4] = kani::any();
            let llen: usize = kani::any();
            kani::assume(llen <= 3);
            let r: [u8; $rlen] = kani::any();
            let op = any_op();
            unsafe {
                LHS_KIND = 3;
                LHS_BYTES = [0; 16];
                LHS_BYTES[0] = l[0];
                LHS_BYTES[1] = l[1];
                LHS_BYTES[2] = l[2];
                LHS_BYTES[3] = l[3];
                LHS_BYTES_LEN = llen;
            }
            // literal of concrete length (allocation size constant), symbolic content
            let rhs = BytesExpr::new(r.to_vec(), BytesFormat::Quoted);
            let (default, got) = run(field_expr(&s, ComparisonOpExpr::Ordering { op, rhs: RhsValue::Bytes(rhs) }));
            let (lt, eq, gt) = lex_lt_eq_gt(&l[..llen], &r);
            assert!(got == meaning(op, lt, eq, gt), "byte-string comparison is not lexicographic byte order");
            assert!(default == want_default(op, nil_false), "absent left side: false except != = nil-not-equal setting");
            // nothing is smaller than the empty literal
            kani::cover!($rlen == 0 || (got && op == OrderingOp::LessThan && llen < $rlen));
            kani::cover!(got && op == OrderingOp::GreaterThan && llen > $rlen);
            kani::cover!(got && op == OrderingOp::Equal);
            kani::cover!(!got && op == OrderingOp::LessThanEqual && llen > 0);
            std::mem::forget(s);
        }
    };
}

cmp_bytes_harness!(c01_cmp_bytes_r0, 0);
cmp_bytes_harness!(c01_cmp_bytes_r1, 1);
cmp_bytes_harness!(c01_cmp_bytes_r2, 2);

// ---------------------------------------------------------------- C09 ------

#[kani::proof]
#[kani::unwind(7)]
#[kani::stub(crate::ast::index_expr::IndexExpr::compile_with, compile_with_stub)]
#[kani::stub(rand::rngs::thread::rng, rng_stub)]
fn c09_oneof_int() {
    let s = mk_scheme(Type::Int, kani::any());
    let x: i64 = kani::any();
    let a0: i64 = kani::any();
    let a1: i64 = kani::any();
    let b0: i64 = kani::any();
    let c0: i64 = kani::any();
    let c1: i64 = kani::any();
    kani::assume(a0 <= a1 && c0 <= c1);
    unsafe {
        LHS_KIND = 0;
        LHS_INT = x;
    }
    let list = vec![IntRange::from(a0..=a1), IntRange::from(b0), IntRange::from(c0..=c1)];
    let (default, got) = run(field_expr(&s, ComparisonOpExpr::OneOf(RhsValues::Int(list))));
    let want = (a0 <= x && x <= a1) || x == b0 || (c0 <= x && x <= c1);
    assert!(got == want, "`x in {{..}}` differs from 'some listed item equals or contains x'");
    assert!(!default, "absent x: `in` must be false");
    kani::cover!(got && x == b0 && !(a0 <= x && x <= a1));
    kani::cover!(got && x == i64::MAX);
    kani::cover!(!got && a0 == i64::MIN);
    std::mem::forget(s);
}

#[kani::proof]
#[kani::unwind(4)]
#[kani::stub(crate::ast::index_expr::IndexExpr::compile_with, compile_with_stub)]
#[kani::stub(rand::rngs::thread::rng, rng_stub)]
fn c09_oneof_int_empty() {
    let s = mk_scheme(Type::Int, kani::any());
    unsafe {
        LHS_KIND = 0;
        LHS_INT = kani::any();
    }
    let (default, got) = run(field_expr(&s, ComparisonOpExpr::OneOf(RhsValues::Int(Vec::new()))));
    assert!(!got, "nothing is a member of the empty list");
    assert!(!default);
    kani::cover!(unsafe { LHS_INT } == 0);
    std::mem::forget(s);
}

/// Mixed-family list: one IPv4 CIDR, one explicit IPv6 range, one IPv4 address.
#[kani::proof]
#[kani::unwind(6)]
#[kani::stub(crate::ast::index_expr::IndexExpr::compile_with, compile_with_stub)]
#[kani::stub(rand::rngs::thread::rng, rng_stub)]
fn c09_oneof_ip() {
    let s = mk_scheme(Type::Ip, kani::any());
    let x4: bool = kani::any();
    let xb: u128 = kani::any();
    kani::assume(!x4 || xb <= u32::MAX as u128);
    // item 1: IPv4 CIDR a/len
    let a: u32 = kani::any();
    let len: u8 = kani::any();
    kani::assume(len <= 32);
    let mask: u32 = if len == 0 { 0 } else { u32::MAX << (32 - len as u32) };
    kani::assume(a & !mask == 0);
    let cidr = match cidr::Ipv4Cidr::new(Ipv4Addr::from(a), len) {
        Ok(c) => c,
        Err(_) => {
            kani::assume(false);
            loop {}
        }
    };
    // item 2: explicit IPv6 range
    let lo: u128 = kani::any();
    let hi: u128 = kani::any();
    kani::assume(lo <= hi);
    // item 3: single IPv4 address
    let single: u32 = kani::any();
    unsafe {
        LHS_KIND = 2;
        LHS_IP_V4 = x4;
        LHS_IP_BITS = xb;
    }
    let list = vec![
        IpRange::Cidr(IpCidr::V4(cidr)),
        IpRange::Explicit(ExplicitIpRange::V6(Ipv6Addr::from(lo)..=Ipv6Addr::from(hi))),
        IpRange::from(IpAddr::V4(Ipv4Addr::from(single))),
    ];
    let (default, got) = run(field_expr(&s, ComparisonOpExpr::OneOf(RhsValues::Ip(list))));
    let want = if x4 {
        let x = xb as u32;
        (x & mask) == a || x == single
    } else {
        lo <= xb && xb <= hi
    };
    assert!(got == want, "`ip in {{..}}` differs from membership in a listed item of the same family");
    assert!(!default, "absent x: `in` must be false");
    kani::cover!(got && x4 && len == 0);
    kani::cover!(got && !x4);
    kani::cover!(!got && x4 && (xb as u128) >= lo && (xb as u128) <= hi);
    kani::cover!(!got && !x4 && xb <= u32::MAX as u128 && ((xb as u32) & mask) == a);
    kani::cover!(got && x4 && xb as u32 == single && (single & mask) != a);
    std::mem::forget(s);
}

// ---------------------------------------------------------------- C11 ------

// The operator node is built with a CONCRETE variant per harness: a symbolic choice between
// the two variants makes the tag an if-then-else and CBMC then explores every arm of the
// compile function's match (ran to 10 GB).
macro_rules! wildcard_arm_harness {
    ($name:ident, $strict:expr, $variant:ident) => {
        #[kani::proof]
        #[kani::unwind(8)]
        #[kani::stub(crate::ast::index_expr::IndexExpr::compile_with, compile_with_stub)]
        #[kani::stub(rand::rngs::thread::rng, rng_stub)]
        fn $name() {
            let s = mk_scheme(Type::Bytes, kani::any());
            let l: [u8; 4] = kani::any();
            let llen: usize = kani::any();
            kani::assume(llen <= 2);
            unsafe {
                LHS_KIND = 3;
                LHS_BYTES = [0; 16];
                LHS_BYTES[0] = l[0];
                LHS_BYTES[1] = l[1];
                LHS_BYTES[2] = l[2];
                LHS_BYTES[3] = l[3];
                LHS_BYTES_LEN = llen;
            }
            // pattern `a*`
            let pat = BytesExpr::new(vec![b'a', b'*'], BytesFormat::Quoted);
            let op = match Wildcard::<$strict>::new(pat, usize::MAX) {
                Ok(w) => ComparisonOpExpr::$variant(w),
                Err(_) => {
                    kani::assume(false);
                    loop {}
                }
            };
            let (default, got) = run(field_expr(&s, op));
            let want = llen >= 1 && (l[0] == b'a' || (!$strict && l[0] == b'A'));
            assert!(got == want, "wildcard / strict wildcard arm does not match with its documented case rule");
            assert!(!default, "absent value: wildcard must be false");
            kani::cover!($strict || (got && l[0] == b'A'));
            kani::cover!(!$strict || (!got && l[0] == b'A' && llen == 2));
            kani::cover!(got && llen == 1);
            std::mem::forget(s);
        }
    };
}

wildcard_arm_harness!(c11_wildcard_arm_ci, false, Wildcard);
wildcard_arm_harness!(c11_wildcard_arm_strict, true, StrictWildcard);

// ---- C11: the `matches` arm and the engine's regex wrapper ---------------
// regex-automata cannot be compiled into the harness (its builder crashes
// kani-compiler), so the ENGINE (`regex_automata::meta::Regex::is_match`) is
// replaced by a recording oracle with an arbitrary answer; what runs for real
// is the arm's wiring, `<Regex as Compare>::compare` and `Regex::is_match`:
// the engine is asked exactly once, about exactly the value's bytes, unanchored
// over the whole value, and its answer is the result; absent value => false.
use regex_automata::meta::Regex as DepMetaRegex;

static mut RX_ANSWER: bool = false;
static mut RX_CALLS: u32 = 0;
static mut RX_HAY_PTR: usize = 0;
static mut RX_HAY_LEN: usize = 0;
static mut RX_WHOLE_UNANCHORED: bool = false;

fn meta_is_match_stub<'h, I: Into<regex_automata::Input<'h>>>(_this: &DepMetaRegex, input: I) -> bool {
    let inp: regex_automata::Input<'h> = input.into();
    unsafe {
        RX_CALLS += 1;
        RX_HAY_PTR = inp.haystack().as_ptr() as usize;
        RX_HAY_LEN = inp.haystack().len();
        RX_WHOLE_UNANCHORED = inp.start() == 0
            && inp.end() == inp.haystack().len()
            && matches!(inp.get_anchored(), regex_automata::Anchored::No);
        RX_ANSWER
    }
}

#[kani::proof]
#[kani::unwind(4)]
#[kani::stub(crate::ast::index_expr::IndexExpr::compile_with, compile_with_stub)]
#[kani::stub(rand::rngs::thread::rng, rng_stub)]
#[kani::stub(DepMetaRegex::is_match, meta_is_match_stub)]
fn c11_matches_arm() {
    let s = mk_scheme(Type::Bytes, kani::any());
    let l: [u8; 2] = kani::any();
    let llen: usize = kani::any();
    kani::assume(llen <= 2);
    let answer: bool = kani::any();
    unsafe {
        LHS_KIND = 3;
        LHS_BYTES = [0; 16];
        LHS_BYTES[0] = l[0];
        LHS_BYTES[1] = l[1];
        LHS_BYTES_LEN = llen;
        RX_ANSWER = answer;
    }
    // Under Kani the engine is the oracle above and the wrapper's fields are never read.
    #[cfg(not(test))]
    let rx: crate::rhs_types::Regex = unsafe { std::mem::MaybeUninit::uninit().assume_init() };
    // Native replay: a real pattern whose real answer on every value is the counterexample's answer.
    #[cfg(test)]
    let rx = crate::rhs_types::Regex::new(
        if answer { "(?s-u:.*)" } else { "[^\\x00-\\xff]" },
        crate::rhs_types::RegexFormat::Literal,
        &crate::ParserSettings::default(),
    )
    .unwrap();
    let (default, got) = run(field_expr(&s, ComparisonOpExpr::Matches(rx)));
    assert!(got == answer, "`matches` is not the regex engine's answer on the value");
    assert!(!default, "absent value: `matches` must be false");
    #[cfg(not(test))]
    unsafe {
        assert!(RX_CALLS == 1, "the regex engine must be asked exactly once");
        assert!(RX_HAY_LEN == llen && RX_HAY_PTR == (&raw const LHS_BYTES) as usize, "the engine must see exactly the value's bytes");
        assert!(RX_WHOLE_UNANCHORED, "the search must be unanchored over the whole value");
    }
    kani::cover!(got && llen == 0);
    kani::cover!(!got && llen == 2);
    std::mem::forget(s);
}

// ---------------------------------------------------------------- C17 ------

#[derive(Debug, Clone, PartialEq, serde::Serialize)]
struct ProbeMatcher {
    id: u8,
}

static mut PM_ASKED: u8 = 0;
static mut PM_ID: u8 = 0;
static mut PM_NAME_OK: bool = false;
static mut PM_VALUE_OK: bool = false;
static mut PM_ANSWER: bool = false;

impl crate::list_matcher::ListMatcher for ProbeMatcher {
    fn match_value(&self, list_name: &str, val: &LhsValue<'_>) -> bool {
        unsafe {
            PM_ASKED += 1;
            PM_ID = self.id;
            PM_NAME_OK = list_name.len() == 3 && list_name.as_bytes()[0] == b'x' && list_name.as_bytes()[2] == b'y';
            PM_VALUE_OK = matches!(val, LhsValue::Int(i) if *i == LHS_INT);
            PM_ANSWER
        }
    }
    fn clear(&mut self) {}
}

#[derive(Debug)]
struct ProbeList {
    id: u8,
}

impl crate::list_matcher::ListDefinition for ProbeList {
    fn deserialize_matcher<'de>(
        &self,
        _: Type,
        _: &mut dyn erased_serde::Deserializer<'de>,
    ) -> Result<Box<dyn crate::list_matcher::ListMatcher>, erased_serde::Error> {
        unreachable!()
    }
    fn new_matcher(&self) -> Box<dyn crate::list_matcher::ListMatcher> {
        Box::new(ProbeMatcher { id: self.id })
    }
}

/// `x in $x.y`: the answer is exactly what the matcher installed for the
/// list of x's type says, asked once with that name and x's value.
#[kani::proof]
#[kani::unwind(3)]
#[kani::stub(crate::ast::index_expr::IndexExpr::compile_with, compile_with_stub)]
#[kani::stub(rand::rngs::thread::rng, rng_stub)]
fn c17_inlist_delegation() {
    let mut b = SchemeBuilder::new();
    b.fields.push(FieldDefinition { name: Arc::from("f"), ty: Type::Int, optional: true });
    // two lists registered: index 0 for Ip, index 1 for Int
    b.lists.push((Type::Ip, Box::new(ProbeList { id: 10 })));
    b.lists.push((Type::Int, Box::new(ProbeList { id: 11 })));
    let s = b.build();
    let ctx = ExecutionContext::<()>::new(&s);
    let x: i64 = kani::any();
    let answer: bool = kani::any();
    unsafe {
        LHS_KIND = 0;
        LHS_INT = x;
        PM_ANSWER = answer;
        CTX = (&raw const ctx) as *const u8;
    }
    let op = ComparisonOpExpr::InList {
        list: List { scheme: s.clone(), index: 1 },
        name: ListName::from(String::from("x.y")),
    };
    let (default, got) = run(field_expr(&s, op));
    unsafe {
        assert!(PM_ASKED == 1, "the list matcher must be asked exactly once");
        assert!(PM_ID == 11, "the matcher of a different list was asked");
        assert!(PM_NAME_OK, "the matcher was asked with a different list name");
        assert!(PM_VALUE_OK, "the matcher was asked with a different value");
    }
    assert!(got == answer, "`x in $list` is not the matcher's answer");
    assert!(!default, "absent x: `in $list` must be false");
    kani::cover!(got);
    kani::cover!(!got);
    std::mem::forget(ctx);
    std::mem::forget(s);
}

// ---------------------------------------------------------------- C10 ------
// The `contains` arm. Two source rewrites (scratch copy only, counted) make its
// environment symbolic: R2 `if *USE_AVX2 {` -> `if use_avx2() {` (the latch
// needs cpuid + the process environment) and R1 `rng().random_range(` ->
// `nondet_range(` (the random anchor becomes a symbolic value constrained to
// whatever range expression the source passes).

static mut AVX2: bool = true;
static mut ANCHOR: usize = 0;
static mut ANCHOR_CALLS: u32 = 0;

pub(crate) fn use_avx2() -> bool {
    unsafe { AVX2 }
}

pub(crate) fn nondet_range(r: std::ops::Range<usize>) -> usize {
    let p: usize = kani::any();
    kani::assume(r.start <= p && p < r.end);
    unsafe {
        ANCHOR = p;
        ANCHOR_CALLS += 1;
    }
    p
}

fn naive_contains(hay: &[u8], needle: &[u8]) -> bool {
    if needle.len() > hay.len() {
        return false;
    }
    let mut i = 0;
    while i + needle.len() <= hay.len() {
        let mut j = 0;
        let mut eq = true;
        while j < needle.len() {
            if hay[i + j] != needle[j] {
                eq = false;
            }
            j += 1;
        }
        if eq {
            return true;
        }
        i += 1;
    }
    false
}

macro_rules! contains_dispatch_harness {
    ($name:ident, $n:expr, $unwind:expr) => {
        #[kani::proof]
        #[kani::unwind($unwind)]
        #[kani::stub(crate::ast::index_expr::IndexExpr::compile_with, compile_with_stub)]
        #[kani::stub(rand::rngs::thread::rng, rng_stub)]
        fn $name() {
            let s = mk_scheme(Type::Bytes, kani::any());
            let needle: [u8; $n] = kani::any();
            let l: [u8; 4] = kani::any();
            let llen: usize = kani::any();
            kani::assume(llen <= 4);
            unsafe {
                LHS_KIND = 3;
                LHS_BYTES = [0; 16];
                LHS_BYTES[0] = l[0];
                LHS_BYTES[1] = l[1];
                LHS_BYTES[2] = l[2];
                LHS_BYTES[3] = l[3];
                LHS_BYTES_LEN = llen;
                AVX2 = true;
            }
            let pat = BytesExpr::new(needle.to_vec(), BytesFormat::Quoted);
            let (default, got) = run(field_expr(&s, ComparisonOpExpr::Contains(pat)));
            assert!(got == naive_contains(&l[..llen], &needle), "`contains` differs from naive substring search on the SIMD path");
            assert!(!default, "absent value: `contains` must be false");
            unsafe {
                if $n >= 2 {
                    assert!(ANCHOR_CALLS == 1 && ANCHOR >= 1 && ANCHOR < $n, "anchor drawn outside 1..len");
                } else {
                    assert!(ANCHOR_CALLS == 0);
                }
            }
            kani::cover!(got && llen == 4);
            // the empty pattern occurs in every value
            kani::cover!($n == 0 || (!got && llen >= $n));
            kani::cover!(got && llen == $n);
            std::mem::forget(s);
        }
    };
}

contains_dispatch_harness!(c10_contains_dispatch_n0, 0, 8);
contains_dispatch_harness!(c10_contains_dispatch_n2, 2, 8);
contains_dispatch_harness!(c10_contains_dispatch_n3, 3, 8);

/// Length dispatch table of the SIMD path, one harness per pattern length
/// 2..=16 (a loop over the lengths in one harness ran to 15 GB): the compiled
/// comparator finds the pattern in itself and does not find it in a copy whose
/// last byte differs (a pattern routed to a searcher of another size fails one
/// of the two); the anchor is drawn inside 1..len.
macro_rules! dispatch_len_harness {
    ($name:ident, $n:expr, $unwind:expr) => {
        #[kani::proof]
        #[kani::unwind($unwind)]
        #[kani::stub(crate::ast::index_expr::IndexExpr::compile_with, compile_with_stub)]
        #[kani::stub(rand::rngs::thread::rng, rng_stub)]
        fn $name() {
            let s = mk_scheme(Type::Bytes, false);
            let bytes: [u8; $n] = kani::any();
            let flip: bool = kani::any();
            unsafe {
                LHS_KIND = 3;
                LHS_BYTES = [0; 16];
                let dst: &mut [u8; 16] = &mut *(&raw mut LHS_BYTES);
                dst[..$n].copy_from_slice(&bytes);
                if flip {
                    LHS_BYTES[$n - 1] = bytes[$n - 1] ^ 1;
                }
                LHS_BYTES_LEN = $n;
                AVX2 = true;
            }
            let pat = BytesExpr::new(bytes.to_vec(), BytesFormat::Quoted);
            let (_, got) = run(field_expr(&s, ComparisonOpExpr::Contains(pat)));
            assert!(got == !flip, "a pattern must be found in itself and not in a copy with a different last byte");
            unsafe {
                assert!(ANCHOR_CALLS == 1 && ANCHOR >= 1 && ANCHOR < $n, "anchor drawn outside 1..len");
            }
            kani::cover!(flip);
            kani::cover!(!flip && bytes[$n - 1] == 0);
            std::mem::forget(s);
        }
    };
}

dispatch_len_harness!(c10_contains_len_02, 2, 3);
dispatch_len_harness!(c10_contains_len_03, 3, 3);
dispatch_len_harness!(c10_contains_len_04, 4, 3);
dispatch_len_harness!(c10_contains_len_05, 5, 3);
dispatch_len_harness!(c10_contains_len_06, 6, 3);
dispatch_len_harness!(c10_contains_len_07, 7, 3);
dispatch_len_harness!(c10_contains_len_08, 8, 3);
dispatch_len_harness!(c10_contains_len_09, 9, 3);
dispatch_len_harness!(c10_contains_len_10, 10, 3);
dispatch_len_harness!(c10_contains_len_11, 11, 3);
dispatch_len_harness!(c10_contains_len_12, 12, 3);
dispatch_len_harness!(c10_contains_len_13, 13, 3);
dispatch_len_harness!(c10_contains_len_14, 14, 3);
dispatch_len_harness!(c10_contains_len_15, 15, 3);
dispatch_len_harness!(c10_contains_len_16, 16, 3);

// ---- C10: the single-byte shortcut and the scalar fallback ---------------
// `memchr::memchr` (runtime CPU dispatch through cpuid) is replaced by its
// contract: the index of the first occurrence. The AVX2 packed-pair finder of
// `memchr::memmem` (availability decided by cpuid) is reported unavailable, so
// the finder the real builder constructs is the SSE2 one, whose `find` runs the
// crate's own Rabin-Karp search on haystacks shorter than one vector.

// Kani resolves a stub path's leading crate name to the FIRST crate of that name, which is std's
// private copy of memchr; going through `use` items makes rustc's own resolution pick the engine's dependency.
use memchr::arch::x86_64::avx2::packedpair::Finder as DepAvx2PairFinder;
use memchr::memchr as dep_memchr;

fn memchr_contract(needle: u8, haystack: &[u8]) -> Option<usize> {
    let mut i = 0;
    while i < haystack.len() {
        if haystack[i] == needle {
            return Some(i);
        }
        i += 1;
    }
    None
}

fn avx2_pair_unavailable(
    _needle: &[u8],
    _pair: memchr::arch::all::packedpair::Pair,
) -> Option<DepAvx2PairFinder> {
    None
}

macro_rules! contains_memchr_harness {
    ($name:ident, $n:expr, $avx2:expr, $unwind:expr) => {
        #[kani::proof]
        #[kani::unwind($unwind)]
        #[kani::stub(crate::ast::index_expr::IndexExpr::compile_with, compile_with_stub)]
        #[kani::stub(rand::rngs::thread::rng, rng_stub)]
        #[kani::stub(dep_memchr, memchr_contract)]
        #[kani::stub(DepAvx2PairFinder::with_pair, avx2_pair_unavailable)]
        fn $name() {
            let s = mk_scheme(Type::Bytes, kani::any());
            let needle: [u8; $n] = kani::any();
            let l: [u8; 4] = kani::any();
            let llen: usize = kani::any();
            kani::assume(llen <= 4);
            let avx2: bool = $avx2;
            unsafe {
                LHS_KIND = 3;
                LHS_BYTES = [0; 16];
                LHS_BYTES[0] = l[0];
                LHS_BYTES[1] = l[1];
                LHS_BYTES[2] = l[2];
                LHS_BYTES[3] = l[3];
                LHS_BYTES_LEN = llen;
                AVX2 = avx2;
            }
            let pat = BytesExpr::new(needle.to_vec(), BytesFormat::Quoted);
            let (default, got) = run(field_expr(&s, ComparisonOpExpr::Contains(pat)));
            assert!(got == naive_contains(&l[..llen], &needle), "`contains` differs from naive substring search on the single-byte / scalar path");
            assert!(!default, "absent value: `contains` must be false");
            unsafe {
                assert!(ANCHOR_CALLS == 0, "no SIMD anchor is drawn on the single-byte / scalar path");
            }
            kani::cover!(got && llen == 4 && l[0] != needle[0]);
            // a near miss: the first byte matches (patterns of 2+), or a non-matching value (one-byte pattern)
            kani::cover!(!got && llen >= $n && (l[0] == needle[0]) == ($n > 1));
            kani::cover!(got && llen == $n);
            std::mem::forget(s);
        }
    };
}

// one-byte pattern: the shortcut is taken whatever the latch says
contains_memchr_harness!(c10_contains_dispatch_n1, 1, kani::any(), 8);
// scalar fallback (WIREFILTER_USE_AVX2=0 / no AVX2)
contains_memchr_harness!(c10_contains_scalar_n2, 2, false, 8);
contains_memchr_harness!(c10_contains_scalar_n3, 3, false, 8);

// ------------------------------------------------------- C09 (byte strings) -

/// `x in {"..", "."}` with one 2-byte and one 1-byte item (symbolic contents)
/// and a probe of up to 2 bytes.
#[kani::proof]
#[kani::unwind(4)]
#[kani::stub(crate::ast::index_expr::IndexExpr::compile_with, compile_with_stub)]
#[kani::stub(rand::rngs::thread::rng, rng_stub)]
fn c09_oneof_bytes() {
    let s = mk_scheme(Type::Bytes, false);
    let i2: [u8; 2] = [kani::any(), kani::any()];
    let i1: [u8; 1] = [kani::any()];
    let probe: [u8; 2] = [kani::any(), kani::any()];
    let plen: usize = kani::any();
    kani::assume(plen <= 2);
    unsafe {
        LHS_KIND = 3;
        LHS_BYTES = [0; 16];
        LHS_BYTES[0] = probe[0];
        LHS_BYTES[1] = probe[1];
        LHS_BYTES_LEN = plen;
    }
    let list = vec![
        BytesExpr::new(i2.to_vec(), BytesFormat::Quoted),
        BytesExpr::new(i1.to_vec(), BytesFormat::Quoted),
    ];
    let (default, got) = run(field_expr(&s, ComparisonOpExpr::OneOf(RhsValues::Bytes(list))));
    let want = (plen == 2 && probe[0] == i2[0] && probe[1] == i2[1]) || (plen == 1 && probe[0] == i1[0]);
    assert!(got == want, "`bytes in {{..}}` differs from 'equals some listed byte string'");
    assert!(!default, "absent x: `in` must be false");
    kani::cover!(got && plen == 1 && i2[0] < i1[0]);
    kani::cover!(got && plen == 2);
    kani::cover!(!got && plen == 0);
    std::mem::forget(s);
}

/// One-item list holding an IPv4 CIDR, probe of either family - in particular
/// IPv4-mapped IPv6 probes, which are IPv6 and must not match an IPv4 block.
#[kani::proof]
#[kani::unwind(6)]
#[kani::stub(crate::ast::index_expr::IndexExpr::compile_with, compile_with_stub)]
#[kani::stub(rand::rngs::thread::rng, rng_stub)]
fn c09_oneof_ip_v4_item() {
    let s = mk_scheme(Type::Ip, kani::any());
    let x4: bool = kani::any();
    let xb: u128 = kani::any();
    kani::assume(!x4 || xb <= u32::MAX as u128);
    let a: u32 = kani::any();
    let len: u8 = kani::any();
    kani::assume(len <= 32);
    let mask: u32 = if len == 0 { 0 } else { u32::MAX << (32 - len as u32) };
    kani::assume(a & !mask == 0);
    let item = match cidr::Ipv4Cidr::new(Ipv4Addr::from(a), len) {
        Ok(c) => IpRange::Cidr(IpCidr::V4(c)),
        Err(_) => {
            kani::assume(false);
            loop {}
        }
    };
    unsafe {
        LHS_KIND = 2;
        LHS_IP_V4 = x4;
        LHS_IP_BITS = xb;
    }
    let (default, got) = run(field_expr(&s, ComparisonOpExpr::OneOf(RhsValues::Ip(vec![item]))));
    let want = x4 && ((xb as u32) & mask) == a;
    assert!(got == want, "`ip in {{..}}` differs from membership in a listed item of the same family");
    assert!(!default, "absent x: `in` must be false");
    kani::cover!(!got && !x4 && (xb >> 32) == 0xffff && ((xb as u32) & mask) == a);
    kani::cover!(got && len == 0);
    kani::cover!(got && len == 32);
    kani::cover!(!got && x4);
    std::mem::forget(s);
}

/// One-item list holding an explicit IPv6 range, probe of either family.
#[kani::proof]
#[kani::unwind(5)]
#[kani::stub(crate::ast::index_expr::IndexExpr::compile_with, compile_with_stub)]
#[kani::stub(rand::rngs::thread::rng, rng_stub)]
fn c09_oneof_ip_v6_item() {
    let s = mk_scheme(Type::Ip, kani::any());
    let x4: bool = kani::any();
    let xb: u128 = kani::any();
    kani::assume(!x4 || xb <= u32::MAX as u128);
    let lo: u128 = kani::any();
    let hi: u128 = kani::any();
    kani::assume(lo <= hi);
    let item = IpRange::Explicit(ExplicitIpRange::V6(Ipv6Addr::from(lo)..=Ipv6Addr::from(hi)));
    unsafe {
        LHS_KIND = 2;
        LHS_IP_V4 = x4;
        LHS_IP_BITS = xb;
    }
    let (default, got) = run(field_expr(&s, ComparisonOpExpr::OneOf(RhsValues::Ip(vec![item]))));
    let want = !x4 && lo <= xb && xb <= hi;
    assert!(got == want, "`ip in {{..}}` differs from membership in a listed item of the same family");
    assert!(!default, "absent x: `in` must be false");
    kani::cover!(got);
    kani::cover!(!got && x4 && lo == 0);
    kani::cover!(!got && !x4);
    std::mem::forget(s);
}

// ---------------------------------------------------------------- C17 (default only) ----

/// Continuation that records the default only (does not apply the comparator):
/// for arms whose comparator needs a real execution context.
fn compile_with_stub_default_only<C: Compiler>(
    this: IndexExpr,
    _compiler: &mut C,
    default: bool,
    comp: impl Compare<C::U>,
) -> CompiledExpr<C::U> {
    unsafe {
        REC_DEFAULT = default;
        REC_CALLS += 1;
    }
    std::mem::forget(this);
    std::mem::forget(comp);
    CompiledExpr::One(CompiledOneExpr::new(|_| false))
}

/// `x in $list` with x absent must be false whatever the nil-not-equal setting.
#[kani::proof]
#[kani::unwind(4)]
#[kani::stub(crate::ast::index_expr::IndexExpr::compile_with, compile_with_stub_default_only)]
#[kani::stub(rand::rngs::thread::rng, rng_stub)]
fn c17_inlist_absent_default() {
    let nil_false: bool = kani::any();
    let mut b = SchemeBuilder::new();
    b.nil_not_equal_is_false = nil_false;
    #[cfg(test)]
    {
        // native replay executes the compiled closure: it needs the field and a list
        b.fields.push(FieldDefinition { name: Arc::from("f"), ty: Type::Int, optional: true });
        b.lists.push((Type::Int, Box::new(crate::list_matcher::NeverList {})));
    }
    let s = b.build();
    let op = ComparisonOpExpr::InList {
        list: List { scheme: s.clone(), index: 0 },
        name: ListName::from(String::from("l")),
    };
    let (default, _) = run(field_expr(&s, op));
    assert!(!default, "absent x: `in $list` must be false");
    kani::cover!(nil_false);
    kani::cover!(!nil_false);
    std::mem::forget(s);
}
