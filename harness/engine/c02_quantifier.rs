//! C02 kernel: any()/all() reduction over a boolean sequence. Child of
//! `ast::logical_expr` (sees the private QuantifierOp::reduce_bool_iter).
use super::*;

#[kani::proof]
#[kani::unwind(7)]
fn c02_quantifier_reduce() {
    let vals: [bool; 4] = kani::any();
    let n: usize = kani::any();
    kani::assume(n <= 4);
    let mut some = false;
    let mut every = true;
    let mut i = 0;
    while i < 4 {
        if i < n {
            some = some || vals[i];
            every = every && vals[i];
        }
        i += 1;
    }
    let any = QuantifierOp::Any.reduce_bool_iter(vals[..n].iter().copied());
    let all = QuantifierOp::All.reduce_bool_iter(vals[..n].iter().copied());
    assert!(any == some, "any() is not 'some element is true'");
    assert!(all == every, "all() is not 'every element is true'");
    if n == 0 {
        assert!(!any && all, "empty input: any() is false and all() is true");
    }
    kani::cover!(n == 4 && any && !all);
    kani::cover!(n == 0);
    kani::cover!(n == 3 && all);
}
