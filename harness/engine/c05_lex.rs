//! C05 kernels: span arithmetic of the lexer helpers. Child of `lex`.
use super::*;

fn ascii<const N: usize>(buf: &[u8; N], len: usize) -> &str {
    unsafe { std::str::from_utf8_unchecked(&buf[..len]) }
}

fn off(outer: &str, inner: &str) -> usize {
    inner.as_ptr() as usize - outer.as_ptr() as usize
}

/// take(input, n): Ok((first n chars, rest)) iff the input has >= n chars;
/// consumed ++ rest == input; never panics.
#[kani::proof]
#[kani::unwind(6)]
fn c05_take() {
    let buf: [u8; 3] = kani::any();
    kani::assume(buf[0] < 0x80 && buf[1] < 0x80 && buf[2] < 0x80);
    let len: usize = kani::any();
    kani::assume(len <= 3);
    let n: usize = kani::any();
    kani::assume(n <= 4);
    let s = ascii(&buf, len);
    let res = take(s, n);
    match &res {
        Ok((taken, rest)) => {
            assert!(n <= len, "take succeeded on a too short input");
            assert!(off(s, taken) == 0 && taken.len() == n, "taken span is not the first n characters");
            assert!(off(s, rest) == n && rest.len() == len - n, "rest does not follow the taken span");
        }
        Err((LexErrorKind::CountMismatch { name, actual, expected }, span)) => {
            assert!(n > len, "take failed although enough characters were available");
            assert!(*actual == len && *expected == n && name.len() == 9, "count mismatch reports wrong counts");
            assert!(off(s, span) == 0 && span.len() == len);
        }
        Err(_) => assert!(false, "unexpected error kind"),
    }
    std::mem::forget(res);
    kani::cover!(n == 3 && len == 3);
    kani::cover!(n == 0 && len == 0);
    kani::cover!(n > len && len == 2);
}

/// take_while(input, name, pred): longest prefix satisfying pred; error iff empty.
#[kani::proof]
#[kani::unwind(6)]
fn c05_take_while() {
    let buf: [u8; 3] = kani::any();
    kani::assume(buf[0] < 0x80 && buf[1] < 0x80 && buf[2] < 0x80);
    let len: usize = kani::any();
    kani::assume(len <= 3);
    let s = ascii(&buf, len);
    let pred = |c: char| c.is_ascii_hexdigit();
    let mut k = 0;
    while k < len && (buf[k] as char).is_ascii_hexdigit() {
        k += 1;
    }
    let res = take_while(s, "digit", pred);
    match &res {
        Ok((taken, rest)) => {
            assert!(k > 0, "take_while succeeded on an empty match");
            assert!(off(s, taken) == 0 && taken.len() == k, "not the longest matching prefix");
            assert!(off(s, rest) == k && rest.len() == len - k);
        }
        Err((LexErrorKind::ExpectedName(name), span)) => {
            assert!(k == 0, "take_while failed although a prefix matched");
            assert!(name.len() == 5 && off(s, span) == 0 && span.len() == len);
        }
        Err(_) => assert!(false, "unexpected error kind"),
    }
    std::mem::forget(res);
    kani::cover!(k == 3);
    kani::cover!(k == 0 && len == 3);
    kani::cover!(k == 1 && len == 2);
}

/// span(input, rest) is the prefix of input before rest; skip_space strips
/// exactly leading ' ', '\r', '\n'; expect strips exactly the literal;
/// complete accepts only an empty rest.
#[kani::proof]
#[kani::unwind(6)]
fn c05_span_skip_expect() {
    let buf: [u8; 3] = kani::any();
    kani::assume(buf[0] < 0x80 && buf[1] < 0x80 && buf[2] < 0x80);
    let len: usize = kani::any();
    kani::assume(len <= 3);
    let s = ascii(&buf, len);
    // skip_space
    let is_sp = |c: u8| c == b' ' || c == b'\r' || c == b'\n';
    let mut k = 0;
    while k < len && is_sp(buf[k]) {
        k += 1;
    }
    let rest = skip_space(s);
    assert!(off(s, rest) == k && rest.len() == len - k, "skip_space strips something other than leading space/CR/LF");
    // span
    let sp = span(s, rest);
    assert!(off(s, sp) == 0 && sp.len() == k);
    // expect
    let res = expect(s, "&&");
    match &res {
        Ok(r) => {
            assert!(len >= 2 && buf[0] == b'&' && buf[1] == b'&', "expect accepted a different prefix");
            assert!(off(s, r) == 2 && r.len() == len - 2);
        }
        Err((LexErrorKind::ExpectedLiteral(l), sp)) => {
            assert!(!(len >= 2 && buf[0] == b'&' && buf[1] == b'&'), "expect rejected its literal");
            assert!(l.len() == 2 && off(s, sp) == 0 && sp.len() == len);
        }
        Err(_) => assert!(false, "unexpected error kind"),
    }
    std::mem::forget(res);
    // complete
    let r: LexResult<'_, u8> = Ok((7, rest));
    let res = complete(r);
    match &res {
        Ok(v) => assert!(*v == 7 && k == len, "complete accepted trailing input"),
        Err((LexErrorKind::EOF, sp)) => {
            assert!(k < len, "complete rejected an empty rest");
            assert!(off(s, sp) == k);
        }
        Err(_) => assert!(false, "unexpected error kind"),
    }
    std::mem::forget(res);
    kani::cover!(k == 2 && len == 3 && buf[1] == b'\n');
    kani::cover!(k == 0 && len == 3 && buf[0] == b'\t');
    kani::cover!(len == 3 && buf[0] == b'&' && buf[1] == b'&');
}

/// take / take_while / skip_space on text that starts with a multi-byte
/// character: `<c><a>` with c any 2-byte UTF-8 character and a any ASCII
/// character. Consumed spans must end on character boundaries (a span cut by
/// byte count panics when sliced) and count CHARACTERS, not bytes.
#[kani::proof]
#[kani::unwind(5)]
fn c05_take_non_ascii() {
    let lead: u8 = kani::any();
    let cont: u8 = kani::any();
    let a: u8 = kani::any();
    kani::assume((0xc2..=0xdf).contains(&lead) && (0x80..=0xbf).contains(&cont) && a < 0x80);
    let buf = [lead, cont, a];
    let with_ascii: bool = kani::any();
    let len = if with_ascii { 3 } else { 2 };
    let nchars = len - 1;
    // valid UTF-8 by construction
    let s = unsafe { std::str::from_utf8_unchecked(&buf[..len]) };
    let n: usize = kani::any();
    kani::assume(n <= 3);
    let res = take(s, n);
    match &res {
        Ok((taken, rest)) => {
            assert!(n <= nchars, "take succeeded on a too short input");
            let bytes = if n == 0 { 0 } else { n + 1 };
            assert!(off(s, taken) == 0 && taken.len() == bytes, "taken span is not the first n characters");
            assert!(off(s, rest) == bytes && rest.len() == len - bytes, "rest does not follow the taken span");
        }
        Err((LexErrorKind::CountMismatch { actual, expected, .. }, span)) => {
            assert!(n > nchars, "take failed although enough characters were available");
            assert!(*actual == nchars && *expected == n, "count mismatch does not count characters");
            assert!(off(s, span) == 0 && span.len() == len);
        }
        Err(_) => assert!(false, "unexpected error kind"),
    }
    std::mem::forget(res);
    // take_while over non-ASCII characters stops at the ASCII one
    let res = take_while(s, "wide", |c| !c.is_ascii());
    match &res {
        Ok((taken, rest)) => {
            assert!(off(s, taken) == 0 && taken.len() == 2 && off(s, rest) == 2 && rest.len() == len - 2, "take_while split inside or after the wrong character");
        }
        Err(_) => assert!(false, "take_while rejected a matching first character"),
    }
    std::mem::forget(res);
    // skip_space does not touch a non-ASCII first character
    let r = skip_space(s);
    assert!(off(s, r) == 0 && r.len() == len);
    kani::cover!(n == 1 && with_ascii);
    kani::cover!(n == 2 && !with_ascii);
    kani::cover!(n == 2 && with_ascii && a == b' ');
}
