//! C05 kernel: ParseError::new line/column arithmetic. Child of `ast::parse`.
use super::*;

macro_rules! parse_error_harness {
    ($name:ident, $n:expr, $unwind:expr) => {
        #[kani::proof]
        #[kani::unwind($unwind)]
        fn $name() {
            let buf: [u8; $n] = kani::any();
            let mut i = 0;
            while i < $n {
                kani::assume(buf[i] == b'\n' || buf[i] == b' ' || buf[i] == b'a');
                i += 1;
            }
            let len: usize = kani::any();
            kani::assume(len <= $n);
            let input = unsafe { std::str::from_utf8_unchecked(&buf[..len]) };
            let a: usize = kani::any();
            let b: usize = kani::any();
            kani::assume(a <= b && b <= len);
            let span = &input[a..b];
            let err = ParseError::new(input, (LexErrorKind::EOF, span));
            // reference: line = number of '\n' before the span start
            let mut line = 0;
            let mut line_start = 0;
            let mut i = 0;
            while i < a {
                if buf[i] == b'\n' {
                    line += 1;
                    line_start = i + 1;
                }
                i += 1;
            }
            let mut line_end = line_start;
            while line_end < len && buf[line_end] != b'\n' {
                line_end += 1;
            }
            assert!(err.line_number == line, "line number is not the number of newlines before the span");
            assert!(err.input.as_ptr() as usize == input.as_ptr() as usize + line_start
                && err.input.len() == line_end - line_start, "reported line is not the input line holding the span start");
            assert!(err.span_start == a - line_start, "column is not the offset inside the line");
            assert!(err.span_start + err.span_len <= err.input.len(), "column range leaves the line");
            let want_len = if b <= line_end { b - a } else { line_end - a };
            assert!(err.span_len == want_len, "span length is not clipped to the line");
            kani::cover!(line == $n - 1);
            kani::cover!(b > line_end && line == 0);
            kani::cover!(a == len && len == $n);
            std::mem::forget(err);
        }
    };
}

parse_error_harness!(c05_parse_error_n2, 2, 5);
parse_error_harness!(c05_parse_error_n3, 3, 6);
parse_error_harness!(c05_parse_error_n4, 4, 7);
parse_error_harness!(c05_parse_error_n5, 5, 8);
