//! C09 kernels: RangeSet normalisation (sort + merge) and binary-search lookup.
//! Child module of `range_set`.
use super::*;
use std::net::{Ipv4Addr, Ipv6Addr};

macro_rules! rangeset_harness {
    ($name:ident, $n:expr, $unwind:expr, $t:ty, $any:expr, $min:expr, $max:expr) => {
        #[kani::proof]
        #[kani::unwind($unwind)]
        fn $name() {
            let mut starts: [$t; $n] = [$min; $n];
            let mut ends: [$t; $n] = [$min; $n];
            let mut v: Vec<RangeInclusive<$t>> = Vec::with_capacity($n);
            let mut i = 0;
            while i < $n {
                let s: $t = $any;
                let e: $t = $any;
                // the range lexers reject reversed bounds (C06)
                kani::assume(s <= e);
                starts[i] = s;
                ends[i] = e;
                v.push(s..=e);
                i += 1;
            }
            let probe: $t = $any;
            let set = RangeSet::from(v);
            let got = set.contains(&probe);
            let mut want = false;
            let mut overlap = false;
            let mut i = 0;
            while i < $n {
                if starts[i] <= probe && probe <= ends[i] {
                    want = true;
                }
                let mut j = 0;
                while j < $n {
                    if i != j && starts[i] <= ends[j] && starts[j] <= ends[i] {
                        overlap = true;
                    }
                    j += 1;
                }
                i += 1;
            }
            assert!(got == want, "RangeSet::contains disagrees with 'some listed range contains x'");
            // normal form: sorted, pairwise disjoint
            let mut k = 1;
            while k < set.ranges.len() {
                assert!(set.ranges[k - 1].end() < set.ranges[k].start(), "ranges not disjoint/sorted after merge");
                k += 1;
            }
            kani::cover!(got && overlap && set.ranges.len() < $n);
            kani::cover!(!got && set.ranges.len() == $n);
            kani::cover!(got && probe == $min);
            kani::cover!(got && probe == $max);
            kani::cover!(got && probe == ends[$n - 1] && starts[$n - 1] < ends[$n - 1]);
            std::mem::forget(set);
        }
    };
}

rangeset_harness!(c09_rangeset_i64_n3, 3, 6, i64, kani::any(), i64::MIN, i64::MAX);
rangeset_harness!(c09_rangeset_i64_n4, 4, 7, i64, kani::any(), i64::MIN, i64::MAX);
rangeset_harness!(c09_rangeset_i64_n5, 5, 8, i64, kani::any(), i64::MIN, i64::MAX);
rangeset_harness!(
    c09_rangeset_v4_n3, 3, 6, Ipv4Addr,
    Ipv4Addr::from(kani::any::<u32>()),
    Ipv4Addr::from(0u32), Ipv4Addr::from(u32::MAX)
);
rangeset_harness!(
    c09_rangeset_v6_n2, 2, 5, Ipv6Addr,
    Ipv6Addr::from(kani::any::<u128>()),
    Ipv6Addr::from(0u128), Ipv6Addr::from(u128::MAX)
);
rangeset_harness!(
    c09_rangeset_v6_n3, 3, 6, Ipv6Addr,
    Ipv6Addr::from(kani::any::<u128>()),
    Ipv6Addr::from(0u128), Ipv6Addr::from(u128::MAX)
);

/// Empty list: nothing is a member.
#[kani::proof]
#[kani::unwind(3)]
fn c09_rangeset_empty() {
    let set: RangeSet<i64> = RangeSet::from(Vec::new());
    let probe: i64 = kani::any();
    assert!(!set.contains(&probe), "empty list must contain nothing");
    kani::cover!(probe == 0);
}

/// `FromIterator` (used for the integer list) agrees with `From<Vec>`.
#[kani::proof]
#[kani::unwind(5)]
fn c09_rangeset_from_iter_n2() {
    let a: i64 = kani::any();
    let b: i64 = kani::any();
    let c: i64 = kani::any();
    let d: i64 = kani::any();
    kani::assume(a <= b && c <= d);
    let probe: i64 = kani::any();
    let set: RangeSet<i64> = [a..=b, c..=d].into_iter().collect();
    let want = (a <= probe && probe <= b) || (c <= probe && probe <= d);
    assert!(set.contains(&probe) == want, "collect::<RangeSet>() disagrees with membership");
    kani::cover!(want && a == c && b == d);
    kani::cover!(!want);
    std::mem::forget(set);
}
