//! C06 / C05 kernels: escape decoders and the raw-string delimiter scan.
//! Child of `rhs_types::bytes` (sees the private fixed_byte/hex_byte/oct_byte).
use super::*;

fn ascii<const N: usize>(buf: &[u8; N], len: usize) -> &str {
    // valid UTF-8 by construction: every byte < 0x80
    unsafe { std::str::from_utf8_unchecked(&buf[..len]) }
}

fn hexval(c: u8) -> Option<u8> {
    match c {
        b'0'..=b'9' => Some(c - b'0'),
        b'a'..=b'f' => Some(c - b'a' + 10),
        b'A'..=b'F' => Some(c - b'A' + 10),
        _ => None,
    }
}

/// `\xHH`: accepted exactly when the next two characters are hex digits.
#[kani::proof]
#[kani::unwind(5)]
fn c06_escape_hex() {
    let buf: [u8; 3] = kani::any();
    kani::assume(buf[0] < 0x80 && buf[1] < 0x80 && buf[2] < 0x80);
    let len: usize = kani::any();
    kani::assume(len <= 3);
    let s = ascii(&buf, len);
    let want = if len >= 2 {
        match (hexval(buf[0]), hexval(buf[1])) {
            (Some(h), Some(l)) => Some(h * 16 + l),
            _ => None,
        }
    } else {
        None
    };
    match hex_byte(s) {
        Ok((b, rest)) => {
            assert!(want.is_some(), "escape accepted although it is not two hex digits");
            assert!(Some(b) == want, "escape decodes to a different byte");
            assert!(rest.len() == len - 2, "escape consumed a different number of characters");
            assert!(rest.as_ptr() as usize == s.as_ptr() as usize + 2);
        }
        Err((kind, span)) => {
            assert!(want.is_none(), "two hex digits rejected");
            // error span lies inside the input (C05)
            let off = span.as_ptr() as usize - s.as_ptr() as usize;
            assert!(off + span.len() <= len);
            std::mem::forget(kind);
        }
    }
    kani::cover!(want == Some(0xff));
    kani::cover!(want == Some(0x0a) && buf[1] == b'A');
    kani::cover!(want.is_none() && len == 3 && buf[0] == b'+');
    kani::cover!(want.is_none() && len == 1);
}

/// `\OOO`: accepted exactly when the three characters are octal digits <= 377.
#[kani::proof]
#[kani::unwind(6)]
fn c06_escape_oct() {
    let buf: [u8; 4] = kani::any();
    kani::assume(buf[0] < 0x80 && buf[1] < 0x80 && buf[2] < 0x80 && buf[3] < 0x80);
    let len: usize = kani::any();
    kani::assume(len <= 4);
    let s = ascii(&buf, len);
    let oct = |c: u8| if (b'0'..=b'7').contains(&c) { Some((c - b'0') as u32) } else { None };
    let want = if len >= 3 {
        match (oct(buf[0]), oct(buf[1]), oct(buf[2])) {
            (Some(a), Some(b), Some(c)) if a * 64 + b * 8 + c <= 255 => Some((a * 64 + b * 8 + c) as u8),
            _ => None,
        }
    } else {
        None
    };
    match oct_byte(s) {
        Ok((b, rest)) => {
            assert!(want.is_some(), "escape accepted although it is not three octal digits <= 377");
            assert!(Some(b) == want, "escape decodes to a different byte");
            assert!(rest.len() == len - 3);
        }
        Err((kind, span)) => {
            assert!(want.is_none(), "three octal digits rejected");
            let off = span.as_ptr() as usize - s.as_ptr() as usize;
            assert!(off + span.len() <= len);
            std::mem::forget(kind);
        }
    }
    kani::cover!(want == Some(0o377));
    kani::cover!(want == Some(0));
    kani::cover!(want.is_none() && len == 4 && buf[0] == b'4' && buf[1] == b'0' && buf[2] == b'0');
    kani::cover!(want.is_none() && len == 3 && buf[1] == b'+');
}

fn raw_alphabet(c: u8) -> bool {
    c == b'#' || c == b'"' || c == b'a'
}

/// Reference scan for a raw string (text after the `r`): k leading `#`, a `"`,
/// body up to the first `"` followed by at least k `#`; rest starts after
/// exactly k of them.
fn raw_model(s: &[u8]) -> Option<(usize, usize, usize)> {
    let n = s.len();
    let mut k = 0;
    while k < n && s[k] == b'#' {
        k += 1;
    }
    if k >= n || s[k] != b'"' {
        return None;
    }
    let mut i = k + 1;
    while i < n {
        if s[i] == b'"' {
            let mut h = 0;
            while i + 1 + h < n && s[i + 1 + h] == b'#' {
                h += 1;
            }
            if h >= k {
                return Some((k + 1, i, i + 1 + k)); // body = s[k+1..i], rest = s[i+1+k..]
            }
        }
        i += 1;
    }
    None
}

macro_rules! raw_string_harness {
    ($name:ident, $n:expr, $unwind:expr) => {
        #[kani::proof]
        #[kani::unwind($unwind)]
        fn $name() {
            let buf: [u8; $n] = kani::any();
            let mut i = 0;
            while i < $n {
                kani::assume(raw_alphabet(buf[i]));
                i += 1;
            }
            let len: usize = kani::any();
            kani::assume(len <= $n);
            let s = ascii(&buf, len);
            let want = raw_model(&buf[..len]);
            match lex_raw_string_as_str(s) {
                Ok(((body, hashes), rest)) => {
                    assert!(want.is_some(), "raw string accepted although it is not terminated");
                    let (b0, b1, r0) = want.unwrap();
                    assert!(hashes as usize == b0 - 1, "wrong hash count");
                    assert!(body.as_ptr() as usize == s.as_ptr() as usize + b0 && body.len() == b1 - b0,
                        "raw string body differs from the text between the delimiters");
                    assert!(rest.as_ptr() as usize == s.as_ptr() as usize + r0 && rest.len() == len - r0,
                        "raw string consumed a different number of characters");
                }
                Err((kind, span)) => {
                    assert!(want.is_none(), "terminated raw string rejected");
                    let off = span.as_ptr() as usize - s.as_ptr() as usize;
                    assert!(off + span.len() <= len);
                    std::mem::forget(kind);
                }
            }
            kani::cover!(want.is_some() && len == $n && (buf[0] == b'#' || $n < 4));
            kani::cover!(want.is_none() && len == $n && buf[0] == b'#' && buf[1] == b'"');
            kani::cover!(want.is_some() && len == 2);
        }
    };
}

raw_string_harness!(c06_raw_string_n3, 3, 6);
raw_string_harness!(c06_raw_string_n4, 4, 7);
raw_string_harness!(c06_raw_string_n5, 5, 8);

/// The separator of hex-pair byte strings: exactly `:`, `-` or `.`.
#[kani::proof]
#[kani::unwind(4)]
fn c06_byte_separator() {
    let buf: [u8; 2] = kani::any();
    kani::assume(buf[0] < 0x80 && buf[1] < 0x80);
    let len: usize = kani::any();
    kani::assume(len <= 2);
    let s = ascii(&buf, len);
    let want = len >= 1 && (buf[0] == b':' || buf[0] == b'-' || buf[0] == b'.');
    match ByteSeparator::lex(s) {
        Ok((_, rest)) => {
            assert!(want, "separator accepted although it is not one of : - .");
            assert!(rest.len() == len - 1);
        }
        Err((kind, _)) => {
            assert!(!want, "separator rejected");
            std::mem::forget(kind);
        }
    }
    kani::cover!(want && buf[0] == b'.');
    kani::cover!(!want && len == 1);
}

// ---------------------------------------------------------------------------
// Rules applied on top of the integer lexer. `<i64 as Lex>::lex` (digit text ->
// value; symbolic digit text is out of CBMC's reach) is replaced by a stub that
// consumes one character and returns an arbitrary i64, so the REAL
// `IntRange::lex` and `FieldIndex::lex` run on every pair of bound values /
// every index value.
// ---------------------------------------------------------------------------

static mut INT_SEQ: [i64; 2] = [0; 2];
static mut INT_CALLS: usize = 0;

// `where 'i: 'i` makes the lifetime early-bound, like the impl-level lifetime of the original
fn int_lex_stub<'i>(input: &'i str) -> LexResult<'i, i64>
where
    'i: 'i,
{
    unsafe {
        let v = INT_SEQ[INT_CALLS & 1];
        INT_CALLS += 1;
        Ok((v, &input[1..]))
    }
}

/// `a..b`: accepted exactly when a <= b, denoting a..=b.
#[kani::proof]
#[kani::unwind(3)]
#[kani::stub(<i64 as crate::lex::Lex>::lex, int_lex_stub)]
fn c06_int_range_rule() {
    use crate::rhs_types::IntRange;
    let a: i64 = kani::any();
    let b: i64 = kani::any();
    unsafe {
        INT_SEQ = [a, b];
        INT_CALLS = 0;
    }
    // native replay (cfg(test): Kani stubs do not exist there) goes through the real digit lexer
    #[cfg(test)]
    let text = format!("{}..{};", a, b);
    #[cfg(test)]
    let res = IntRange::lex(&text);
    #[cfg(not(test))]
    let res = IntRange::lex("1..2;");
    match &res {
        Ok((r, rest)) => {
            let r: std::ops::RangeInclusive<i64> = r.into();
            assert!(a <= b, "reversed integer range accepted");
            assert!(*r.start() == a && *r.end() == b, "range bounds differ from the literal's bounds");
            assert!(rest.len() == 1, "range literal consumed a different number of characters");
        }
        Err((kind, _)) => {
            assert!(a > b, "ordered integer range rejected");
            assert!(matches!(kind, LexErrorKind::IncompatibleRangeBounds));
        }
    }
    kani::cover!(res.is_ok() && a == i64::MIN && b == i64::MAX);
    kani::cover!(res.is_err() && a == i64::MAX && b == i64::MIN);
    kani::cover!(res.is_ok() && a == b);
    std::mem::forget(res);
}

/// A single value v denotes v..=v.
#[kani::proof]
#[kani::unwind(3)]
#[kani::stub(<i64 as crate::lex::Lex>::lex, int_lex_stub)]
fn c06_int_single_rule() {
    use crate::rhs_types::IntRange;
    let a: i64 = kani::any();
    unsafe {
        INT_SEQ = [a, a];
        INT_CALLS = 0;
    }
    #[cfg(test)]
    let text = format!("{};", a);
    #[cfg(test)]
    let res = IntRange::lex(&text);
    #[cfg(not(test))]
    let res = IntRange::lex("1;");
    match &res {
        Ok((r, rest)) => {
            let r: std::ops::RangeInclusive<i64> = r.into();
            assert!(*r.start() == a && *r.end() == a, "a single value must denote the one-value range");
            assert!(rest.len() == 1);
        }
        Err(_) => assert!(false, "a single value rejected"),
    }
    kani::cover!(res.is_ok() && a == i64::MIN);
    std::mem::forget(res);
}

/// `[n]`: an array index is accepted exactly when 0 <= n <= 2^32-1 and denotes n.
#[kani::proof]
#[kani::unwind(2)]
#[kani::stub(<i64 as crate::lex::Lex>::lex, int_lex_stub)]
fn c06_index_literal_rule() {
    use crate::scheme::FieldIndex;
    let n: i64 = kani::any();
    unsafe {
        INT_SEQ = [n, n];
        INT_CALLS = 0;
    }
    #[cfg(test)]
    let text = format!("{}]", n);
    #[cfg(test)]
    let res = FieldIndex::lex(&text);
    #[cfg(not(test))]
    let res = FieldIndex::lex("7]");
    match &res {
        Ok((FieldIndex::ArrayIndex(u), rest)) => {
            assert!(n >= 0 && n <= u32::MAX as i64, "negative or oversized index accepted");
            assert!(*u as i64 == n, "index denotes a different number");
            assert!(rest.len() == 1);
        }
        Ok(_) => assert!(false, "an integer index must become an array index"),
        Err(_) => assert!(n < 0 || n > u32::MAX as i64, "index within 0..2^32-1 rejected"),
    }
    kani::cover!(res.is_ok() && n == u32::MAX as i64);
    kani::cover!(res.is_err() && n == u32::MAX as i64 + 1);
    kani::cover!(res.is_err() && n == -1);
    kani::cover!(res.is_ok() && n == 0);
    std::mem::forget(res);
}

// ---- C05: invalid escape followed by a multi-byte character ---------------
// `"\<c>` with c any 2-byte (resp. any 3-byte E1..EC-led) UTF-8 character: the
// quoted-string lexer must return an error whose span is exactly that
// character - a span cut inside it panics when sliced (not a char boundary).
macro_rules! escape_non_ascii_harness {
    ($name:ident, $w:expr, $unwind:expr) => {
        #[kani::proof]
        #[kani::unwind($unwind)]
        fn $name() {
            let lead: u8 = kani::any();
            let c1: u8 = kani::any();
            let c2: u8 = kani::any();
            kani::assume((0x80..=0xbf).contains(&c1) && (0x80..=0xbf).contains(&c2));
            let mut buf = [b'\\', lead, c1, c2, b'"'];
            if $w == 2 {
                kani::assume((0xc2..=0xdf).contains(&lead));
                buf[3] = b'"';
            } else {
                kani::assume((0xe1..=0xec).contains(&lead));
            }
            let len = 1 + $w + 1;
            // valid UTF-8 by construction (lead / continuation ranges above)
            let s = unsafe { std::str::from_utf8_unchecked(&buf[..len]) };
            let res = lex_quoted_string_as_vec(s);
            match res {
                Ok(ok) => {
                    std::mem::forget(ok);
                    assert!(false, "an escape of a non-ASCII character was accepted");
                }
                Err((kind, span)) => {
                    let is_escape_err = matches!(kind, LexErrorKind::InvalidCharacterEscape);
                    std::mem::forget(kind);
                    assert!(is_escape_err, "wrong error kind for an invalid escape");
                    let off = span.as_ptr() as usize - s.as_ptr() as usize;
                    assert!(off == 1 && span.len() == $w, "error span is not the escaped character");
                }
            }
            kani::cover!(c1 == 0xbf);
            kani::cover!(lead & 1 == 1 && c1 == 0x80);
        }
    };
}
escape_non_ascii_harness!(c05_escape_non_ascii_w2, 2, 2);
escape_non_ascii_harness!(c05_escape_non_ascii_w3, 3, 2);
