//! C04 / C03 kernels: parameter typing of simple functions, the exact-size
//! chain used for optional parameters, and the per-call definition context.
//! Child of `functions`.
use super::*;
use crate::types::CompoundType;

fn pool(k: u8) -> Type {
    match k {
        0 => Type::Bool,
        1 => Type::Int,
        2 => Type::Bytes,
        3 => Type::Ip,
        4 => Type::Array(CompoundType::from_type(Type::Int)),
        5 => Type::Map(CompoundType::from_type(Type::Int)),
        6 => Type::Array(CompoundType::from_type(Type::Array(CompoundType::from_type(Type::Bool)))),
        _ => Type::Map(CompoundType::from_type(Type::Array(CompoundType::from_type(Type::Bytes)))),
    }
}

fn any_type() -> (u8, Type) {
    let k: u8 = kani::any();
    kani::assume(k < 8);
    (k, pool(k))
}

fn any_kind() -> SimpleFunctionArgKind {
    let k: u8 = kani::any();
    kani::assume(k < 3);
    match k {
        0 => SimpleFunctionArgKind::Literal,
        1 => SimpleFunctionArgKind::Field,
        _ => SimpleFunctionArgKind::Both,
    }
}

fn dummy_impl<'i, 'a>(_: FunctionArgs<'i, 'a>) -> Option<LhsValue<'a>> {
    None
}

/// check_param on a mandatory slot: Ok iff the argument's kind is admitted and
/// its full type equals the declared one; the error names the right mismatch.
#[kani::proof]
#[kani::unwind(4)]
fn c04_param_typing() {
    let (dk, declared) = any_type();
    let (ak, actual) = any_type();
    let kind = any_kind();
    let is_const: bool = kani::any();
    // a literal argument can only be Int / Bytes / Ip typed
    let lit_int = RhsValue::Int(kani::any());
    let param = if is_const {
        kani::assume(ak == 1);
        FunctionParam::Constant(&lit_int)
    } else {
        FunctionParam::Variable(actual)
    };
    let def = SimpleFunctionDefinition {
        params: vec![SimpleFunctionParam { arg_kind: kind, val_type: declared }],
        opt_params: vec![],
        return_type: Type::Bool,
        implementation: SimpleFunctionImpl::new(dummy_impl),
    };
    assert!(def.arg_count() == (1, Some(0)));
    let settings = ParserSettings::default();
    let mut none = std::iter::empty::<FunctionParam<'_>>();
    let res = def.check_param(&settings, &mut none, &param, None);
    let kind_ok = match kind {
        SimpleFunctionArgKind::Literal => is_const,
        SimpleFunctionArgKind::Field => !is_const,
        SimpleFunctionArgKind::Both => true,
    };
    let type_ok = dk == ak;
    match &res {
        Ok(()) => assert!(kind_ok && type_ok, "argument accepted although kind or type does not match the declaration"),
        Err(FunctionParamError::KindMismatch(e)) => {
            assert!(!kind_ok, "kind mismatch reported for an admitted kind");
            assert!(e.actual == param.arg_kind());
            assert!((e.expected == FunctionArgKind::Literal) == (kind == SimpleFunctionArgKind::Literal));
        }
        Err(FunctionParamError::TypeMismatch(e)) => {
            assert!(kind_ok && !type_ok, "type mismatch reported although the types are equal (or kind wrong)");
            assert!(e.actual == actual);
        }
        Err(_) => assert!(false, "unexpected error"),
    }
    kani::cover!(res.is_ok() && dk == 7);
    kani::cover!(res.is_ok() && is_const);
    kani::cover!(!kind_ok && type_ok);
    kani::cover!(kind_ok && dk == 4 && ak == 6);
    kani::cover!(kind_ok && dk == 4 && ak == 5);
    std::mem::forget(res);
    std::mem::forget(def);
}

/// expect_val_type with loose Array / Map expectations: the outer layer decides.
#[kani::proof]
#[kani::unwind(4)]
fn c04_expect_val_type() {
    let (ak, actual) = any_type();
    let (ek, exact) = any_type();
    let which: u8 = kani::any();
    kani::assume(which < 3);
    let param = FunctionParam::Variable(actual);
    assert!(param.get_type() == actual && param.arg_kind() == FunctionArgKind::Field);
    let expected = match which {
        0 => ExpectedType::Array,
        1 => ExpectedType::Map,
        _ => ExpectedType::Type(exact),
    };
    let res = param.expect_val_type(std::iter::once(expected));
    let want = match which {
        0 => ak == 4 || ak == 6,
        1 => ak == 5 || ak == 7,
        _ => ak == ek,
    };
    assert!(res.is_ok() == want, "expect_val_type disagrees with the typing rule");
    if let Err(FunctionParamError::TypeMismatch(e)) = &res {
        assert!(e.actual == actual);
    }
    kani::cover!(want && which == 0 && ak == 6);
    kani::cover!(!want && which == 1 && ak == 4);
    kani::cover!(want && which == 2 && ak == 7);
    std::mem::forget(res);
}

/// Kind helpers.
#[kani::proof]
fn c04_arg_kind_expect() {
    let a = if kani::any() { FunctionArgKind::Literal } else { FunctionArgKind::Field };
    let b = if kani::any() { FunctionArgKind::Literal } else { FunctionArgKind::Field };
    match a.expect(b) {
        Ok(()) => assert!(a == b),
        Err(e) => assert!(a != b && e.expected == b && e.actual == a),
    }
    let ty = Type::Int;
    let v = FunctionParam::Variable(ty);
    assert!(v.as_variable().is_ok() && v.as_constant().is_err());
    let lit = RhsValue::Int(kani::any());
    let c = FunctionParam::Constant(&lit);
    assert!(c.as_constant().is_ok() && c.as_variable().is_err());
    assert!(c.get_type() == Type::Int);
    kani::cover!(a != b);
}

/// ExactSizeChain: yields a's items then b's, len() exact at every step.
#[kani::proof]
#[kani::unwind(7)]
fn c03_exact_size_chain() {
    let xs: [u8; 2] = kani::any();
    let ys: [u8; 2] = kani::any();
    let na: usize = kani::any();
    let nb: usize = kani::any();
    kani::assume(na <= 2 && nb <= 2);
    let mut it = ExactSizeChain::new(xs[..na].iter().copied(), ys[..nb].iter().copied());
    let mut i = 0;
    while i < na + nb {
        assert!(it.len() == na + nb - i, "len() is not the number of remaining items");
        let got = it.next();
        let want = if i < na { xs[i] } else { ys[i - na] };
        assert!(got == Some(want), "items out of order: supplied arguments first, then defaults");
        i += 1;
    }
    assert!(it.len() == 0 && it.next().is_none());
    kani::cover!(na == 2 && nb == 2);
    kani::cover!(na == 0 && nb == 1);
}

/// The per-call context: every accessor reaches the same stored object.
#[kani::proof]
#[kani::unwind(3)]
fn c03_definition_context() {
    let v: u32 = kani::any();
    let w: u32 = kani::any();
    let mut ctx = FunctionDefinitionContext::new(v);
    assert!(ctx.downcast_ref::<u32>() == Some(&v), "downcast_ref misses the stored object");
    assert!(ctx.as_any_ref().downcast_ref::<u32>() == Some(&v), "as_any_ref misses the stored object");
    assert!(ctx.downcast_ref::<u64>().is_none());
    let p1 = ctx.downcast_mut::<u32>().map(|r| r as *mut u32);
    assert!(p1.is_some(), "downcast_mut misses the stored object");
    let p2 = ctx.as_any_mut().downcast_mut::<u32>().map(|r| r as *mut u32);
    assert!(p2.is_some(), "as_any_mut does not give access to the stored object");
    assert!(p1 == p2, "accessors reach different objects");
    if let Some(r) = ctx.as_any_mut().downcast_mut::<u32>() {
        *r = w;
    }
    assert!(ctx.downcast_ref::<u32>() == Some(&w), "a write through as_any_mut is not visible through downcast_ref");
    // a clone is an independent copy with the same content
    let c2 = ctx.clone();
    assert!(c2.downcast_ref::<u32>() == Some(&w));
    let b = ctx.downcast::<u32>();
    assert!(matches!(b, Ok(ref x) if **x == w), "downcast loses the object");
    let any = c2.into_any();
    assert!(any.downcast_ref::<u32>() == Some(&w), "into_any loses the object");
    kani::cover!(v != w);
    std::mem::forget(b);
    std::mem::forget(any);
}
