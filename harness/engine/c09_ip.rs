//! C09 / C06 kernels: list items (address, CIDR, explicit range) -> explicit
//! range, per family. Child of `rhs_types::ip`.
use super::*;

/// IPv4 CIDR a/len -> first..=last: x is in the range iff x and a agree on the
/// first `len` bits; a CIDR with host bits set is not constructible.
#[kani::proof]
fn c09_cidr_v4_bounds() {
    let a: u32 = kani::any();
    let len: u8 = kani::any();
    kani::assume(len <= 32);
    let mask: u32 = if len == 0 { 0 } else { u32::MAX << (32 - len as u32) };
    let x: u32 = kani::any();
    match Ipv4Cidr::new(Ipv4Addr::from(a), len) {
        Ok(c) => {
            assert!(a & !mask == 0, "CIDR with host bits set accepted");
            let r = ExplicitIpRange::from(IpRange::Cidr(IpCidr::V4(c)));
            match &r {
                ExplicitIpRange::V4(range) => {
                    let inside = *range.start() <= Ipv4Addr::from(x) && Ipv4Addr::from(x) <= *range.end();
                    assert!(inside == (x & mask == a), "CIDR block does not cover exactly the addresses sharing its prefix");
                    assert!(u32::from(*range.start()) == a && u32::from(*range.end()) == (a | !mask));
                    kani::cover!(inside && len == 0);
                    kani::cover!(inside && len == 32);
                    kani::cover!(!inside && len == 31);
                }
                ExplicitIpRange::V6(_) => assert!(false, "an IPv4 CIDR became an IPv6 range"),
            }
        }
        Err(_) => assert!(a & !mask != 0, "CIDR without host bits rejected"),
    }
}

#[kani::proof]
fn c09_cidr_v6_bounds() {
    let a: u128 = kani::any();
    let len: u8 = kani::any();
    kani::assume(len <= 128);
    let mask: u128 = if len == 0 { 0 } else { u128::MAX << (128 - len as u32) };
    let x: u128 = kani::any();
    match Ipv6Cidr::new(Ipv6Addr::from(a), len) {
        Ok(c) => {
            assert!(a & !mask == 0, "CIDR with host bits set accepted");
            let r = ExplicitIpRange::from(IpRange::Cidr(IpCidr::V6(c)));
            match &r {
                ExplicitIpRange::V6(range) => {
                    let inside = *range.start() <= Ipv6Addr::from(x) && Ipv6Addr::from(x) <= *range.end();
                    assert!(inside == (x & mask == a), "CIDR block does not cover exactly the addresses sharing its prefix");
                    kani::cover!(inside && len == 0);
                    kani::cover!(inside && len == 128);
                    kani::cover!(!inside && len == 64);
                }
                ExplicitIpRange::V4(_) => assert!(false, "an IPv6 CIDR became an IPv4 range"),
            }
        }
        Err(_) => assert!(a & !mask != 0, "CIDR without host bits rejected"),
    }
}

/// A single address and an explicit range keep their family and bounds.
#[kani::proof]
fn c09_addr_and_explicit_items() {
    let bits: u128 = kani::any();
    let v4: bool = kani::any();
    let ip = if v4 { IpAddr::V4(Ipv4Addr::from(bits as u32)) } else { IpAddr::V6(Ipv6Addr::from(bits)) };
    // `IpRange::from(addr)` is what a single address in a list becomes
    let r = ExplicitIpRange::from(IpRange::from(ip));
    match &r {
        ExplicitIpRange::V4(range) => assert!(v4 && IpAddr::V4(*range.start()) == ip && IpAddr::V4(*range.end()) == ip,
            "single IPv4 address does not become the one-address IPv4 range"),
        ExplicitIpRange::V6(range) => assert!(!v4 && IpAddr::V6(*range.start()) == ip && IpAddr::V6(*range.end()) == ip,
            "single IPv6 address does not become the one-address IPv6 range"),
    }
    let lo: u32 = kani::any();
    let hi: u32 = kani::any();
    kani::assume(lo <= hi);
    let e = ExplicitIpRange::V4(Ipv4Addr::from(lo)..=Ipv4Addr::from(hi));
    let back = ExplicitIpRange::from(IpRange::Explicit(e.clone()));
    assert!(back == e, "explicit range changed by conversion");
    kani::cover!(v4);
    kani::cover!(!v4);
}

// `parse_addr` (address text -> IpAddr, std's parser) is replaced by a stub
// returning arbitrary addresses, so the REAL `IpRange::lex` range rule runs on
// every pair of bounds: same family and first <= last, else rejected.
static mut ADDR_SEQ: [(bool, u128); 2] = [(false, 0); 2];
static mut ADDR_CALLS: usize = 0;

fn parse_addr_stub(_input: &str) -> Result<IpAddr, LexError<'_>> {
    unsafe {
        let (v4, bits) = ADDR_SEQ[ADDR_CALLS & 1];
        ADDR_CALLS += 1;
        Ok(if v4 { IpAddr::V4(Ipv4Addr::from(bits as u32)) } else { IpAddr::V6(Ipv6Addr::from(bits)) })
    }
}

#[kani::proof]
#[kani::unwind(18)]
#[kani::stub(crate::rhs_types::ip::parse_addr, parse_addr_stub)]
fn c06_ip_range_rule() {
    let a4: bool = kani::any();
    let ab: u128 = kani::any();
    let b4: bool = kani::any();
    let bb: u128 = kani::any();
    kani::assume(!a4 || ab <= u32::MAX as u128);
    kani::assume(!b4 || bb <= u32::MAX as u128);
    unsafe {
        ADDR_SEQ = [(a4, ab), (b4, bb)];
        ADDR_CALLS = 0;
    }
    // native replay (cfg(test): Kani stubs do not exist there) goes through the real address parser
    #[cfg(test)]
    let text = {
        let ip = |v4: bool, bits: u128| if v4 { IpAddr::V4(Ipv4Addr::from(bits as u32)) } else { IpAddr::V6(Ipv6Addr::from(bits)) };
        format!("{}..{} ", ip(a4, ab), ip(b4, bb))
    };
    #[cfg(test)]
    let res = IpRange::lex(&text);
    #[cfg(not(test))]
    let res = IpRange::lex("1..2 ");
    match &res {
        Ok((IpRange::Explicit(ExplicitIpRange::V4(r)), rest)) => {
            assert!(a4 && b4 && ab <= bb, "mixed-family or reversed address range accepted");
            assert!(u32::from(*r.start()) as u128 == ab && u32::from(*r.end()) as u128 == bb);
            assert!(rest.len() == 1);
        }
        Ok((IpRange::Explicit(ExplicitIpRange::V6(r)), rest)) => {
            assert!(!a4 && !b4 && ab <= bb, "mixed-family or reversed address range accepted");
            assert!(u128::from(*r.start()) == ab && u128::from(*r.end()) == bb);
            assert!(rest.len() == 1);
        }
        Ok(_) => assert!(false, "an a..b literal must become an explicit range"),
        Err(_) => assert!(a4 != b4 || ab > bb, "ordered same-family address range rejected"),
    }
    kani::cover!(res.is_ok() && a4 && ab == bb);
    kani::cover!(res.is_ok() && !a4 && ab < bb);
    kani::cover!(res.is_err() && a4 != b4);
    kani::cover!(res.is_err() && a4 == b4 && ab > bb);
    std::mem::forget(res);
}
