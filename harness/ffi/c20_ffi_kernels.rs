//! C15 / C20 / C07 kernels of the ffi crate root: CType packing vs the engine's
//! recursive Type, the streaming hash writer, result constants. Child of the
//! crate root (`ffi/src/lib.rs`).
use super::*;

fn prim(k: u8) -> (CPrimitiveType, Type) {
    match k {
        0 => (CPrimitiveType::Ip, Type::Ip),
        1 => (CPrimitiveType::Bytes, Type::Bytes),
        2 => (CPrimitiveType::Int, Type::Int),
        _ => (CPrimitiveType::Bool, Type::Bool),
    }
}

/// C-side type construction (create_primitive/array/map_type) against the
/// engine's recursive form, up to 3 layers: the conversion in both directions
/// is the identity and layer order is preserved.
#[kani::proof]
#[kani::unwind(6)]
fn c15_ctype_small() {
    let k: u8 = kani::any();
    kani::assume(k < 4);
    let (cp, ty0) = prim(k);
    let n: u8 = kani::any();
    kani::assume(n <= 3);
    let bits: u8 = kani::any();
    let mut c = wirefilter_create_primitive_type(cp);
    let mut t = ty0;
    let mut i = 0;
    while i < n {
        if (bits >> i) & 1 == 0 {
            c = wirefilter_create_array_type(c);
            t = Type::Array(t.into());
        } else {
            c = wirefilter_create_map_type(c);
            t = Type::Map(t.into());
        }
        i += 1;
    }
    assert!(c.len == n, "C type length differs from the number of layers");
    let back: Type = c.into();
    assert!(back == t, "C type converts to a different engine type");
    let again: CType = t.into();
    assert!(again == c, "engine type converts to a different C type");
    kani::cover!(n == 3 && bits & 7 == 0b101);
    kani::cover!(n == 0 && k == 3);
}

/// CType::push / pop one step from any state with room: pop(push(x)) == x, the
/// bit layout is the one CompoundType uses (layer bit 0 = Array, 1 = Map at the
/// low end).
#[kani::proof]
fn c15_ctype_step() {
    let layers: u32 = kani::any();
    let len: u8 = kani::any();
    kani::assume(len < 32);
    kani::assume(layers >> len == 0);
    let primitive: u8 = kani::any();
    let c = CType { layers, len, primitive };
    let is_map: bool = kani::any();
    let p = c.push(if is_map { Layer::Map } else { Layer::Array });
    assert!(p.len == len + 1 && p.primitive == primitive);
    assert!(p.layers == (layers << 1) | (is_map as u32), "layer bit not appended at the low end");
    let (q, l) = p.pop();
    assert!(q == c, "pop(push(x)) != x");
    assert!(matches!(l, Some(Layer::Map)) == is_map && l.is_some());
    let (z, none) = CType { layers: 0, len: 0, primitive }.pop();
    assert!(none.is_none() && z.len == 0);
    kani::cover!(len == 31 && is_map);
    kani::cover!(len == 0 && !is_map);
}

/// The hash writer is byte-streaming: the hash depends only on the bytes
/// written, not on how they are chunked (serde_json writes in pieces).
#[kani::proof]
#[kani::unwind(8)]
fn c07_hash_streaming() {
    let data: [u8; 5] = kani::any();
    let n: usize = kani::any();
    let cut: usize = kani::any();
    kani::assume(n <= 5 && cut <= n);
    let mut one = FnvHasher::default();
    {
        let mut w = HasherWrite(&mut one);
        w.write_all(&data[..n]).unwrap();
    }
    let mut two = FnvHasher::default();
    {
        let mut w = HasherWrite(&mut two);
        let k = w.write(&data[..cut]).unwrap();
        assert!(k == cut, "write must report the whole buffer as consumed");
        w.write_all(&data[cut..n]).unwrap();
        w.flush().unwrap();
    }
    assert!(one.finish() == two.finish(), "hash depends on how the JSON bytes are chunked");
    // different single bytes give different hashes (FNV-1a step is injective in the byte)
    let a: u8 = kani::any();
    let b: u8 = kani::any();
    let mut ha = FnvHasher::default();
    let mut hb = FnvHasher::default();
    HasherWrite(&mut ha).write_all(&[a]).unwrap();
    HasherWrite(&mut hb).write_all(&[b]).unwrap();
    assert!((ha.finish() == hb.finish()) == (a == b), "one-byte documents with different bytes hash equal");
    kani::cover!(n == 5 && cut == 2);
    kani::cover!(n == 0);
}

/// Result constants (no symbolic input: a constant table): the match result
/// for a caught panic carries the panic status, the error result the error
/// status, and neither claims a match.
#[kani::proof]
fn c20_result_constants() {
    assert!(Status::Success as u32 == 0, "Success must be 0 for C callers");
    assert!(MatchingResult::PANIC.status == Status::Panic, "a panic caught in match must be reported with the panic status");
    assert!(!MatchingResult::PANIC.matched);
    assert!(MatchingResult::ERROR.status == Status::Error && !MatchingResult::ERROR.matched);
    assert!(UsingResult::ERROR.status == Status::Error && !UsingResult::ERROR.used);
    let k: u8 = kani::any();
    kani::cover!(k == 0);
}

/// The thread's last-error is replaced, not appended to, by a later failure,
/// and cleared by wirefilter_clear_last_error (two-step history, symbolic text).
#[kani::proof]
#[kani::unwind(8)]
fn c20_last_error_replaced() {
    let a: [u8; 2] = [kani::any(), kani::any()];
    let b: [u8; 2] = [kani::any(), kani::any()];
    kani::assume(a[0] < 0x80 && a[1] < 0x80 && b[0] < 0x80 && b[1] < 0x80);
    let sa = unsafe { std::str::from_utf8_unchecked(&a) };
    let sb = unsafe { std::str::from_utf8_unchecked(&b) };
    assert!(wirefilter_get_last_error().is_null(), "no error yet: NULL expected");
    write_last_error!("{}", sa);
    write_last_error!("{}", sb);
    let p = wirefilter_get_last_error() as *const u8;
    assert!(!p.is_null(), "an error was written");
    let want = |c: u8| if c == 0 { 0x1a } else { c };
    unsafe {
        assert!(*p == want(b[0]) && *p.add(1) == want(b[1]) && *p.add(2) == 0,
            "last-error must hold exactly the latest message, NUL-terminated");
    }
    wirefilter_clear_last_error();
    assert!(wirefilter_get_last_error().is_null(), "cleared last-error must be NULL");
    kani::cover!(b[0] == 0);
    kani::cover!(a[0] != b[0]);
}
