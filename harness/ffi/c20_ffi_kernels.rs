//! C15 / C20 / C07 kernels of the ffi crate root: CType packing vs the engine's
//! recursive Type, the streaming hash writer, result constants. Child of the
//! crate root (`ffi/src/lib.rs`).
use super::*;

fn prim(k: u8) -> (CPrimitiveType, Type) {
    match k {
        0 => (CPrimitiveType::Ip, Type::Ip),
        1 => (CPrimitiveType::Bytes, Type::Bytes),
        2 => (CPrimitiveType::Int, Type::Int),
        _ => (CPrimitiveType::Bool, Type::Bool),
    }
}

/// C-side type construction (create_primitive/array/map_type) against the
/// engine's recursive form, up to 3 layers: the conversion in both directions
/// is the identity and layer order is preserved.
#[kani::proof]
#[kani::unwind(6)]
fn c15_ctype_small() {
    let k: u8 = kani::any();
    kani::assume(k < 4);
    let (cp, ty0) = prim(k);
    let n: u8 = kani::any();
    kani::assume(n <= 3);
    let bits: u8 = kani::any();
    let mut c = wirefilter_create_primitive_type(cp);
    let mut t = ty0;
    let mut i = 0;
    while i < n {
        if (bits >> i) & 1 == 0 {
            c = wirefilter_create_array_type(c);
            t = Type::Array(t.into());
        } else {
            c = wirefilter_create_map_type(c);
            t = Type::Map(t.into());
        }
        i += 1;
    }
    assert!(c.len == n, "C type length differs from the number of layers");
    let back: Type = c.into();
    assert!(back == t, "C type converts to a different engine type");
    let again: CType = t.into();
    assert!(again == c, "engine type converts to a different C type");
    kani::cover!(n == 3 && bits & 7 == 0b101);
    kani::cover!(n == 0 && k == 3);
}

/// CType::push / pop one step from any state with room: pop(push(x)) == x, the
/// bit layout is the one CompoundType uses (layer bit 0 = Array, 1 = Map at the
/// low end).
#[kani::proof]
fn c15_ctype_step() {
    let layers: u32 = kani::any();
    let len: u8 = kani::any();
    kani::assume(len < 32);
    kani::assume(layers >> len == 0);
    let primitive: u8 = kani::any();
    let c = CType { layers, len, primitive };
    let is_map: bool = kani::any();
    let p = c.push(if is_map { Layer::Map } else { Layer::Array });
    assert!(p.len == len + 1 && p.primitive == primitive);
    assert!(p.layers == (layers << 1) | (is_map as u32), "layer bit not appended at the low end");
    let (q, l) = p.pop();
    assert!(q == c, "pop(push(x)) != x");
    assert!(matches!(l, Some(Layer::Map)) == is_map && l.is_some());
    let (z, none) = CType { layers: 0, len: 0, primitive }.pop();
    assert!(none.is_none() && z.len == 0);
    kani::cover!(len == 31 && is_map);
    kani::cover!(len == 0 && !is_map);
}

/// The hash writer forwards exactly the bytes it is given, in order, whatever
/// the chunking (serde_json writes the JSON in pieces): checked with a
/// recording `Hasher`, so the claim is about the repository's `HasherWrite`, not
/// about FNV arithmetic (two 64-bit multiplier chains compared for equality do
/// not finish in CaDiCaL: 22 min probe).
struct RecHasher {
    bytes: [u8; 8],
    n: usize,
}

impl Hasher for RecHasher {
    fn finish(&self) -> u64 {
        self.n as u64
    }
    fn write(&mut self, bytes: &[u8]) {
        let mut i = 0;
        while i < bytes.len() {
            if self.n < 8 {
                self.bytes[self.n] = bytes[i];
            }
            self.n += 1;
            i += 1;
        }
    }
}

#[kani::proof]
#[kani::unwind(8)]
fn c07_hash_streaming() {
    let data: [u8; 5] = kani::any();
    let n: usize = kani::any();
    let cut: usize = kani::any();
    kani::assume(n <= 5 && cut <= n);
    let mut rec = RecHasher { bytes: [0; 8], n: 0 };
    {
        let mut w = HasherWrite(&mut rec);
        let k = w.write(&data[..cut]).unwrap();
        assert!(k == cut, "write must report the whole buffer as consumed");
        w.write_all(&data[cut..n]).unwrap();
        w.flush().unwrap();
    }
    assert!(rec.n == n, "the hasher must receive exactly as many bytes as were written");
    let mut i = 0;
    while i < 5 {
        if i < n {
            assert!(rec.bytes[i] == data[i], "the hasher must receive the written bytes unchanged and in order");
        }
        i += 1;
    }
    // one FNV-1a step distinguishes different bytes (single multiplication)
    let a: u8 = kani::any();
    let b: u8 = kani::any();
    let mut ha = FnvHasher::default();
    let mut hb = FnvHasher::default();
    HasherWrite(&mut ha).write_all(&[a]).unwrap();
    HasherWrite(&mut hb).write_all(&[b]).unwrap();
    assert!((ha.finish() == hb.finish()) == (a == b), "one-byte documents with different bytes hash equal");
    kani::cover!(n == 5 && cut == 2);
    kani::cover!(n == 0);
}

/// Result constants (no symbolic input: a constant table): the match result
/// for a caught panic carries the panic status, the error result the error
/// status, and neither claims a match.
#[kani::proof]
fn c20_result_constants() {
    assert!(Status::Success as u32 == 0, "Success must be 0 for C callers");
    assert!(MatchingResult::PANIC.status == Status::Panic, "a panic caught in match must be reported with the panic status");
    assert!(!MatchingResult::PANIC.matched);
    assert!(MatchingResult::ERROR.status == Status::Error && !MatchingResult::ERROR.matched);
    assert!(UsingResult::ERROR.status == Status::Error && !UsingResult::ERROR.used);
    let k: u8 = kani::any();
    kani::cover!(k == 0);
}

// A harness on `write_last_error!` twice in a row (the thread's last-error is replaced, not
// appended to) was written and dropped: the thread-local `LAST_ERROR.with_borrow_mut` path
// crashes kani-compiler (intrinsics.rs:243, the same crash as catch_unwind).
