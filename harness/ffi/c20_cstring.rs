//! C20 kernel: the last-error buffer. Child of `cstring` in the ffi crate.
use super::*;
use std::io::Write as IoWrite;

/// Representation invariant: empty, or non-NUL bytes followed by exactly one NUL.
fn valid(v: &[u8]) -> bool {
    if v.is_empty() {
        return true;
    }
    let mut i = 0;
    while i + 1 < v.len() {
        if v[i] == 0 {
            return false;
        }
        i += 1;
    }
    v[v.len() - 1] == 0
}

/// One append from any valid state (inductive step: covers write sequences of
/// any length): result is old ++ buf with NUL -> 0x1A, NUL-terminated.
#[kani::proof]
#[kani::unwind(9)]
fn c20_cstring_step() {
    let old: [u8; 4] = kani::any();
    let olen: usize = kani::any();
    kani::assume(olen <= 4);
    kani::assume(valid(&old[..olen]));
    let add: [u8; 3] = kani::any();
    let alen: usize = kani::any();
    kani::assume(alen <= 3);
    let mut s = CString(old[..olen].to_vec());
    let via_fmt: bool = kani::any();
    if via_fmt {
        // fmt::Write takes a &str: restrict to ASCII for this path
        kani::assume(add[0] < 0x80 && add[1] < 0x80 && add[2] < 0x80);
        let st = unsafe { std::str::from_utf8_unchecked(&add[..alen]) };
        assert!(std::fmt::Write::write_str(&mut s, st).is_ok());
    } else {
        let n = s.write(&add[..alen]).unwrap();
        assert!(n == alen, "write must report the whole buffer as written");
    }
    let v = &s.0;
    let text_old = if olen == 0 { 0 } else { olen - 1 };
    assert!(v.len() == text_old + alen + 1, "length is not old text + appended bytes + NUL");
    assert!(valid(v), "buffer is not a NUL-terminated string without interior NUL");
    let mut i = 0;
    while i < text_old {
        assert!(v[i] == old[i], "earlier text changed");
        i += 1;
    }
    let mut j = 0;
    while j < alen {
        let want = if add[j] == 0 { 0x1a } else { add[j] };
        assert!(v[text_old + j] == want, "appended byte differs (NUL must become 0x1A)");
        j += 1;
    }
    assert!(!s.as_c_str().is_null(), "non-empty string must not be reported as NULL");
    kani::cover!(olen == 4 && alen == 3 && add[1] == 0);
    kani::cover!(olen == 0 && alen == 0);
    kani::cover!(olen == 1 && alen == 1);
    std::mem::forget(s);
}

/// clear() empties the string and an empty string is reported as NULL.
#[kani::proof]
#[kani::unwind(6)]
fn c20_cstring_clear() {
    let old: [u8; 3] = kani::any();
    let olen: usize = kani::any();
    kani::assume(olen <= 3);
    kani::assume(valid(&old[..olen]));
    let mut s = CString(old[..olen].to_vec());
    assert!(s.as_c_str().is_null() == (olen == 0), "NULL iff empty");
    s.clear();
    assert!(s.0.is_empty() && s.as_c_str().is_null(), "clear() must leave the empty (NULL) string");
    let n = CString::new();
    assert!(n.as_c_str().is_null());
    kani::cover!(olen == 3);
    std::mem::forget(s);
}
