//! Parser harnesses: the REAL `LogicalExpr::lex_with` (precedence climbing,
//! same-operator flattening, operand type check, parenthesis / not handling and
//! their nesting accounting) and `ComparisonExpr::lex_with` / `IndexExpr::lex_with`
//! run on concrete text whose operator tokens are symbolic; only the registry
//! lookup `Scheme::get` is replaced (Kani stub) by a harness function mapping
//! the one-letter names a..d to fields 0..3 (the real one is a hash-map lookup
//! that CBMC does not decide). Child of `scheme`.
use super::*;
use crate::ast::field_expr::{ComparisonOpExpr, IdentifierExpr};
use crate::ast::logical_expr::{LogicalExpr, LogicalOp, UnaryOp};
use crate::ast::parse::{FilterParser, ParserSettings};
use crate::lex::{LexErrorKind, LexWith};

/// Replacement for `Scheme::get`: `a`..`d` are the fields 0..3, nothing else exists.
// `where 's: 's` makes the lifetime early-bound, like the impl-level lifetime of the original
fn scheme_get_stub<'s>(this: &'s Scheme, name: &str) -> Option<Identifier<'s>>
where
    's: 's,
{
    let b = name.as_bytes();
    if b.len() == 1 && b[0] >= b'a' && b[0] <= b'd' {
        Some(Identifier::Field(FieldRef { scheme: this, index: (b[0] - b'a') as usize }))
    } else {
        None
    }
}

/// regex-automata's builder crashes kani-compiler as soon as it is reachable;
/// no text in these harnesses contains a `matches` operator.
fn regex_new_stub(
    _pattern: &str,
    _format: crate::rhs_types::RegexFormat,
    _settings: &ParserSettings,
) -> Result<crate::rhs_types::Regex, crate::rhs_types::RegexError> {
    kani::assume(false);
    loop {}
}

fn mk_scheme(arr: [bool; 4]) -> Scheme {
    // no loop here: the harness's unwinding bound is kept as small as the parser's own loops need
    let ty = |a: bool| if a { Type::Array(Type::Bool.into()) } else { Type::Bool };
    let mut b = SchemeBuilder::new();
    b.fields = vec![
        FieldDefinition { name: Arc::from("x"), ty: ty(arr[0]), optional: false },
        FieldDefinition { name: Arc::from("x"), ty: ty(arr[1]), optional: false },
        FieldDefinition { name: Arc::from("x"), ty: ty(arr[2]), optional: false },
        FieldDefinition { name: Arc::from("x"), ty: ty(arr[3]), optional: false },
    ];
    b.build()
}

fn put_op(buf: &mut [u8], at: usize, k: u8) -> LogicalOp {
    let (c, op) = match k {
        0 => (b'|', LogicalOp::Or),
        1 => (b'^', LogicalOp::Xor),
        _ => (b'&', LogicalOp::And),
    };
    buf[at] = c;
    buf[at + 1] = c;
    op
}

fn apply(op: LogicalOp, a: bool, b: bool) -> bool {
    match op {
        LogicalOp::Or => a || b,
        LogicalOp::Xor => a ^ b,
        LogicalOp::And => a && b,
    }
}

/// Harness-side evaluator of the parsed tree over boolean leaf values.
fn eval(e: &LogicalExpr, vals: &[bool; 4], depth: u8) -> bool {
    if depth == 0 {
        kani::assume(false);
    }
    match e {
        LogicalExpr::Comparison(c) => match &c.lhs.identifier {
            IdentifierExpr::Field(f) => vals[f.index & 3],
            _ => {
                kani::assume(false);
                false
            }
        },
        LogicalExpr::Combining { op, items } => {
            let mut acc = eval(&items[0], vals, depth - 1);
            let mut i = 1;
            while i < items.len() {
                acc = apply(*op, acc, eval(&items[i], vals, depth - 1));
                i += 1;
            }
            acc
        }
        LogicalExpr::Parenthesized(p) => eval(&p.expr, vals, depth - 1),
        LogicalExpr::Unary { op: UnaryOp::Not, arg } => !eval(arg, vals, depth - 1),
        LogicalExpr::Quantifier { .. } => {
            kani::assume(false);
            false
        }
    }
}

/// The language's meaning of `v0 o0 v1 o1 v2 o2 v3`: and binds tighter than xor,
/// xor tighter than or; equal operators associate left to right.
fn model3(v: &[bool; 4], o: &[LogicalOp; 3]) -> bool {
    // and-groups
    let mut t = [false; 4];
    let mut to = [LogicalOp::Or; 3];
    let mut n = 0;
    let mut cur = v[0];
    let mut i = 0;
    while i < 3 {
        if o[i] == LogicalOp::And {
            cur = cur && v[i + 1];
        } else {
            t[n] = cur;
            to[n] = o[i];
            n += 1;
            cur = v[i + 1];
        }
        i += 1;
    }
    t[n] = cur;
    n += 1;
    // xor-groups
    let mut u = [false; 4];
    let mut m = 0;
    let mut cur = t[0];
    let mut i = 0;
    while i < 3 {
        if i + 1 < n {
            if to[i] == LogicalOp::Xor {
                cur = cur ^ t[i + 1];
            } else {
                u[m] = cur;
                m += 1;
                cur = t[i + 1];
            }
        }
        i += 1;
    }
    u[m] = cur;
    m += 1;
    // or
    let mut r = false;
    let mut i = 0;
    while i < 4 {
        if i < m {
            r = r || u[i];
        }
        i += 1;
    }
    r
}

/// One concrete operator choice: parse `a ?? b ?? c ?? d`, check acceptance
/// against the (symbolic) operand typing and the meaning against precedence
/// for symbolic leaf values.
fn check_chain(parser: &FilterParser<'_>, arr: &[bool; 4], vals: &[bool; 4], k: [u8; 3], words: bool) {
    let mut sym: [u8; 16] = *b"a && b && c && d";
    let ops = [put_op(&mut sym, 2, k[0]), put_op(&mut sym, 7, k[1]), put_op(&mut sym, 12, k[2])];
    // word aliases: same layout with 3-letter operators (`or` is padded with a space)
    let mut wrd: [u8; 19] = *b"a and b and c and d";
    if words {
        let mut i = 0;
        while i < 3 {
            let w: &[u8; 3] = match k[i] {
                0 => b"or ",
                1 => b"xor",
                _ => b"and",
            };
            wrd[2 + 6 * i] = w[0];
            wrd[3 + 6 * i] = w[1];
            wrd[4 + 6 * i] = w[2];
            i += 1;
        }
    }
    let text = if words { unsafe { std::str::from_utf8_unchecked(&wrd) } } else { unsafe { std::str::from_utf8_unchecked(&sym) } };
    let res = LogicalExpr::lex_with(text, parser);
    let same_kind = arr[0] == arr[1] && arr[1] == arr[2] && arr[2] == arr[3];
    match &res {
        Ok((expr, rest)) => {
            assert!(same_kind, "logical operator accepted operands of different kinds (Bool vs Array(Bool))");
            assert!(rest.is_empty(), "parser stopped before the end of the expression");
            if !arr[0] {
                let got = eval(expr, vals, 4);
                assert!(got == model3(vals, &ops), "parsed tree does not follow the binding strength and > xor > or");
            }
            if k[0] == k[1] && k[1] == k[2] {
                match expr {
                    LogicalExpr::Combining { op, items } => {
                        assert!(*op == ops[0] && items.len() == 4, "same-operator chain is not flattened into one node")
                    }
                    _ => assert!(false, "chain did not parse to a combining node"),
                }
            }
        }
        Err((kind, _)) => {
            assert!(!same_kind, "well-typed expression rejected");
            assert!(matches!(kind, LexErrorKind::TypeMismatch(_)), "ill-typed operands must give a type mismatch error");
        }
    }
    kani::cover!(res.is_ok() && k[0] == 0 && k[1] == 2 && k[2] == 1);
    kani::cover!(res.is_ok() && arr[0]);
    kani::cover!(res.is_err() && arr[3] && !arr[2]);
    std::mem::forget(res);
}

/// `a ?? b ?? c ?? d` for all 27 operator choices (enumerated by unrolling: the
/// text of each is concrete, which keeps the parser's discarded-error drop glue
/// constant-folded), with every boolean / boolean-array typing of the four
/// fields and every leaf value symbolic: accepted iff all operands have the same
/// kind; for plain booleans the parsed tree means what and > xor > or
/// prescribes; a chain of one operator is a single flattened node.
macro_rules! precedence_harness {
    ($name:ident, $k0:expr, $words:expr) => {
        #[kani::proof]
        #[kani::unwind(6)]
        #[kani::stub(crate::scheme::Scheme::get, scheme_get_stub)]
        #[kani::stub(crate::rhs_types::Regex::new, regex_new_stub)]
        fn $name() {
            let arr: [bool; 4] = [kani::any(), kani::any(), kani::any(), kani::any()];
            let vals: [bool; 4] = [kani::any(), kani::any(), kani::any(), kani::any()];
            let s = mk_scheme(arr);
            let parser = FilterParser::new(&s);
            let mut k1 = 0u8;
            while k1 < 3 {
                let mut k2 = 0u8;
                while k2 < 3 {
                    check_chain(&parser, &arr, &vals, [$k0, k1, k2], $words);
                    k2 += 1;
                }
                k1 += 1;
            }
            std::mem::forget(s);
        }
    };
}

precedence_harness!(c01_parse_precedence_or, 0, false);
precedence_harness!(c01_parse_precedence_xor, 1, false);
precedence_harness!(c01_parse_precedence_and, 2, false);
precedence_harness!(c01_parse_precedence_words_or, 0, true);
precedence_harness!(c01_parse_precedence_words_xor, 1, true);
precedence_harness!(c01_parse_precedence_words_and, 2, true);

/// `!a ?? (b ?? !c)` / `not a ?? (b ?? not c)`: `not` binds to the next simple
/// expression only, and parentheses override precedence (9 operator choices
/// enumerated, leaf values symbolic).
#[kani::proof]
#[kani::unwind(6)]
#[kani::stub(crate::scheme::Scheme::get, scheme_get_stub)]
#[kani::stub(crate::rhs_types::Regex::new, regex_new_stub)]
fn c01_parse_not_paren() {
    let s = mk_scheme([false; 4]);
    let parser = FilterParser::new(&s);
    let vals: [bool; 4] = [kani::any(), kani::any(), kani::any(), kani::any()];
    let mut k0 = 0u8;
    while k0 < 3 {
        let mut k1 = 0u8;
        while k1 < 3 {
            let mut buf: [u8; 15] = *b"!a && (b && !c)";
            let ops = [put_op(&mut buf, 3, k0), put_op(&mut buf, 9, k1)];
            let text = unsafe { std::str::from_utf8_unchecked(&buf) };
            let res = LogicalExpr::lex_with(text, &parser);
            match &res {
                Ok((expr, rest)) => {
                    assert!(rest.is_empty(), "parser stopped before the end of the expression");
                    let got = eval(expr, &vals, 5);
                    let want = apply(ops[0], !vals[0], apply(ops[1], vals[1], !vals[2]));
                    assert!(got == want, "`not` must bind to the next simple expression only and parentheses must group");
                }
                Err(_) => assert!(false, "well-typed expression rejected"),
            }
            kani::cover!(res.is_ok() && k0 == 2 && k1 == 0);
            std::mem::forget(res);
            k1 += 1;
        }
        k0 += 1;
    }
    // word form of `not`
    let res = LogicalExpr::lex_with("not a and not (b or c)", &parser);
    match &res {
        Ok((expr, rest)) => {
            assert!(rest.is_empty());
            assert!(eval(expr, &vals, 5) == (!vals[0] && !(vals[1] || vals[2])), "`not` word form mis-parsed");
        }
        Err(_) => assert!(false, "well-typed expression rejected"),
    }
    std::mem::forget(res);
    std::mem::forget(s);
}

fn check_nesting(parser: &FilterParser<'_>, text: &str, depth: u16, limit: u16) {
    let res = LogicalExpr::lex_with(text, parser);
    match &res {
        Ok((_, rest)) => {
            assert!(depth <= limit, "expression nested deeper than the limit accepted");
            assert!(rest.is_empty());
        }
        Err((kind, _)) => {
            assert!(depth > limit, "expression within the nesting limit rejected");
            assert!(matches!(kind, LexErrorKind::NestingLimitExceeded { limit: l } if *l == limit),
                "wrong error for an over-deep expression");
        }
    }
    kani::cover!(res.is_ok() && depth == limit);
    kani::cover!(res.is_err() && depth == limit + 1);
    std::mem::forget(res);
}

/// Nesting accounting of the two constructs reachable here, `(`…`)` and `not`,
/// through the real `lex_simple_expr`, for every limit: `!(!(a))` nests 4 deep,
/// `((a)) || !b` 2 deep, `not not a` 2 deep, `a && b` not at all.
#[kani::proof]
#[kani::unwind(6)]
#[kani::stub(crate::scheme::Scheme::get, scheme_get_stub)]
#[kani::stub(crate::rhs_types::Regex::new, regex_new_stub)]
fn c13_parse_nesting_sites() {
    let s = mk_scheme([false; 4]);
    let limit: u16 = kani::any();
    kani::assume(limit < u16::MAX);
    let settings = ParserSettings { max_nesting_depth: limit, ..ParserSettings::default() };
    let parser = FilterParser::with_settings(&s, settings);
    check_nesting(&parser, "!(!(a))", 4, limit);
    check_nesting(&parser, "((a)) || !b", 2, limit);
    check_nesting(&parser, "not not a", 2, limit);
    check_nesting(&parser, "a && b", 0, limit);
    std::mem::forget(s);
}
