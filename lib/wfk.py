#!/usr/bin/env python3
"""Driver for the Kani/CBMC checks of cloudflare/wirefilter.

One run of `check <ID>`:
  1. snapshot /repo's working tree into a scratch directory (outside /repo and
     /verif), copy the harness sources next to it;
  2. instrument the copy only: append `#[cfg(kani)] mod ...;` lines to the host
     files, patch the `backtrace` crate, apply the (counted) source rewrites;
  3. run every harness of the property as its own `cargo kani` process (own
     target dir seeded from the dependency cache, `ulimit -v`, wall cap);
  4. classify SUCCESS / FAILURE / UNDECIDED from CBMC's per-check results,
     unwinding assertions and cover witnesses;
  5. replay every FAILURE natively (`cargo kani playback`, dev and release)
     before printing a VIOLATION line;
  6. write /verif/evidence/<ID>.json.
Exit codes: 0 held on everything explored, 1 violation (reproduced natively),
2 undecided / instrumentation no longer applies / counterexample not reproduced.
"""
import json
import os
import re
import shutil
import signal
import subprocess
import sys
import tempfile
import time
import hashlib
from concurrent.futures import ThreadPoolExecutor

VERIF = os.path.dirname(os.path.dirname(os.path.abspath(__file__)))
REPO = os.environ.get("VERIF_REPO", "/repo")
CACHE = os.path.join(VERIF, ".cache")
KNOWN = os.path.join(VERIF, "known_findings.json")

sys.path.insert(0, os.path.join(VERIF, "harness"))
import spec as SPEC  # noqa: E402

PKG = {"engine": "wirefilter-engine", "ffi": "wirefilter-ffi"}


def log(msg):
    print(msg, flush=True)


def sh(cmd, **kw):
    return subprocess.run(cmd, shell=isinstance(cmd, str), stdout=subprocess.PIPE,
                          stderr=subprocess.STDOUT, text=True, **kw)


# --------------------------------------------------------------------------
# scratch copy + instrumentation
# --------------------------------------------------------------------------

class Instrumentation(Exception):
    pass


def module_path(host, modname):
    """engine/src/rhs_types/bytes.rs -> rhs_types::bytes::<modname>"""
    rel = host.split("/src/", 1)[1]
    rel = rel[:-3]
    parts = rel.split("/")
    if parts[-1] in ("mod", "lib"):
        parts = parts[:-1]
    return "::".join(parts + [modname])


def make_scratch(prop, keep=False):
    base = os.environ.get("VERIF_TMP") or os.environ.get("TMPDIR") or "/tmp"
    os.makedirs(base, exist_ok=True)
    d = tempfile.mkdtemp(prefix="wfk-%s-" % prop, dir=base)
    return d


def snapshot(scratch, modules, rewrites=()):
    src = os.path.join(scratch, "src")
    r = sh(["rsync", "-a", "--delete", "--exclude", "/target", "--exclude", ".git",
            "--exclude", "/engine/target", REPO + "/", src + "/"])
    if r.returncode != 0:
        raise Instrumentation("rsync failed: " + r.stdout)
    hdir = os.path.join(scratch, "h")
    shutil.copytree(os.path.join(VERIF, "harness"), hdir,
                    ignore=shutil.ignore_patterns("__pycache__", "*.py"))
    # manifest patch: the real backtrace crate does not compile under Kani
    with open(os.path.join(src, "Cargo.toml"), "a") as f:
        f.write('\n[patch.crates-io]\nbacktrace = { path = "%s" }\n'
                % os.path.join(VERIF, "stubs", "backtrace"))
    # Kani needs the lock file to accept the patched crate offline
    for m in modules:
        host = os.path.join(src, m["host"])
        if not os.path.isfile(host):
            raise Instrumentation("host file %s no longer exists" % m["host"])
        with open(host, "a") as f:
            f.write('\n#[cfg(kani)]\n#[path = "%s"]\npub(crate) mod %s;\n'
                    % (os.path.join(hdir, m["file"]), m["mod"]))
    for rw in rewrites:
        p = os.path.join(src, rw["file"])
        if not os.path.isfile(p):
            raise Instrumentation("rewrite target %s missing" % rw["file"])
        text = open(p).read()
        n = text.count(rw["find"])
        if n != rw["count"]:
            raise Instrumentation("rewrite %s: expected %d occurrences of %r in %s, found %d"
                                  % (rw["id"], rw["count"], rw["find"], rw["file"], n))
        open(p, "w").write(text.replace(rw["find"], rw["replace"]))
    return src


def tree_digest(src):
    h = hashlib.sha256()
    for root, dirs, files in os.walk(src):
        dirs[:] = sorted(x for x in dirs if x not in ("target", ".git"))
        for fn in sorted(files):
            if fn.endswith((".rs", ".toml", ".lock")):
                p = os.path.join(root, fn)
                h.update(os.path.relpath(p, src).encode())
                h.update(open(p, "rb").read())
    return h.hexdigest()[:16]


# --------------------------------------------------------------------------
# running one harness
# --------------------------------------------------------------------------

def seed_target(tdir, crate):
    cache = os.path.join(CACHE, "kani-target-" + crate)
    if os.path.isdir(cache) and not os.path.isdir(tdir):
        r = sh(["cp", "-a", cache, tdir])
        if r.returncode != 0:
            shutil.rmtree(tdir, ignore_errors=True)
            return False
        return True
    return False


def kani_cmd(src, tdir, crate, fullname, h, playback=True):
    cmd = ["cargo", "kani", "-p", PKG[crate], "--target-dir", tdir,
           "--harness", fullname, "--exact", "-Z", "stubbing"]
    if playback:
        cmd += ["-Z", "concrete-playback", "--concrete-playback=print"]
    if h.get("no_default_features"):
        cmd += ["--no-default-features"]
    if h.get("solver"):
        cmd += ["--solver", h["solver"]]
    cbmc_args = h.get("cbmc_args")
    if cbmc_args:
        cmd += ["-Z", "unstable-options", "--cbmc-args"] + list(cbmc_args)
    return cmd


def run_harness(scratch, src, crate, fullname, h):
    name = h["name"]
    tdir = os.path.join(scratch, "t", name)
    os.makedirs(os.path.dirname(tdir), exist_ok=True)
    seeded = seed_target(tdir, crate)
    logp = os.path.join(scratch, "log", name + ".log")
    os.makedirs(os.path.dirname(logp), exist_ok=True)
    mem_kb = int(h.get("mem_gb", 8) * 1024 * 1024)
    timeout = int(h.get("timeout", 600))
    # harnesses flagged "big" reach most of the crate: with concrete playback on, CBMC emits a
    # full trace per cover witness and the Kani driver needs > 10 GB to load them. They run
    # without playback first and are re-run with it only when an assertion fails.
    want_playback = not h.get("big", False)
    env = dict(os.environ)
    env["CARGO_NET_OFFLINE"] = "true"
    env.pop("RUSTUP_TOOLCHAIN", None)
    t0 = time.time()
    h = dict(h)
    if h.get("unwindset"):
        # Per-loop bounds by name pattern. Loop identifiers are mangled, so they are resolved on
        # every run: build the harness (a `--show-loops` pass; the Kani driver cannot parse that
        # output and stops, the goto binary stays), list its loops with cbmc, match the patterns.
        pre = kani_cmd(src, tdir, crate, fullname, dict(h, cbmc_args=["--show-loops"]), playback=False)
        with open(logp + ".loops", "w") as lf:
            subprocess.run(["bash", "-c", "ulimit -v %d; exec %s" % (mem_kb, " ".join(map(shquote, pre)))],
                           cwd=src, stdout=lf, stderr=subprocess.STDOUT, env=env, timeout=timeout + 600)
        ids = []
        import glob
        outs = [f for f in glob.glob(os.path.join(tdir, "kani", "**", "*%s.out" % name), recursive=True)
                if not f.endswith(".symtab.out")]
        if outs:
            r = sh(["cbmc", "--show-loops", sorted(outs, key=os.path.getmtime)[-1]])
            loops = re.findall(r"^Loop (\S+):", r.stdout, re.M)
            for pat, bound in h["unwindset"]:
                for lid in loops:
                    if pat in lid:
                        ids.append("%s:%d" % (lid, bound))
        if ids:
            h["cbmc_args"] = list(h.get("cbmc_args") or []) + ["--unwindset", ",".join(ids)]
        h["_unwindset_resolved"] = ids
    cmd = kani_cmd(src, tdir, crate, fullname, h, playback=want_playback)
    with open(logp, "w") as lf:
        shcmd = "ulimit -v %d; exec %s" % (mem_kb, " ".join(map(shquote, cmd)))
        p = subprocess.Popen(["bash", "-c", shcmd], cwd=src, stdout=lf, stderr=subprocess.STDOUT,
                             env=env, start_new_session=True)
        timed_out = False
        try:
            p.wait(timeout=timeout + 600)  # build time allowance on top of the solver cap
        except subprocess.TimeoutExpired:
            timed_out = True
            try:
                os.killpg(p.pid, signal.SIGKILL)
            except ProcessLookupError:
                pass
            p.wait()
    text = open(logp, errors="replace").read()
    res = parse_kani_log(text)
    if not want_playback and res["checks_failed"] and not timed_out:
        # second pass: same harness, this time asking for the concrete playback test
        cmd2 = kani_cmd(src, tdir, crate, fullname, h, playback=True)
        logp2 = logp[:-4] + ".playback.log"
        with open(logp2, "w") as lf:
            shcmd = "ulimit -v %d; exec %s" % (mem_kb * 2, " ".join(map(shquote, cmd2)))
            p2 = subprocess.Popen(["bash", "-c", shcmd], cwd=src, stdout=lf, stderr=subprocess.STDOUT,
                                  env=env, start_new_session=True)
            try:
                p2.wait(timeout=timeout + 600)
            except subprocess.TimeoutExpired:
                try:
                    os.killpg(p2.pid, signal.SIGKILL)
                except ProcessLookupError:
                    pass
                p2.wait()
        res2 = parse_kani_log(open(logp2, errors="replace").read())
        res["playback"] = res2.get("playback", [])
    wall = time.time() - t0
    res["unwindset"] = h.get("_unwindset_resolved")
    res.update(name=name, fullname=fullname, wall_s=round(wall, 1), rc=p.returncode,
               timed_out=timed_out, seeded=seeded, log=logp, cmd=" ".join(cmd))
    # drop the build output right away (disk), keep the log
    shutil.rmtree(tdir, ignore_errors=True)
    return res


def shquote(s):
    if re.match(r"^[A-Za-z0-9_./:=,+-]+$", s):
        return s
    return "'" + s.replace("'", "'\\''") + "'"


CHECK_RE = re.compile(
    r"^Check (\d+): ([^\n]+)\n\s+- Status: (\w+)\n\s+- Description: \"(.*?)\"\n(?:\s+- Location: (.*?)\n)?",
    re.M | re.S)


def parse_kani_log(text):
    """Extract per-check results of the (single) harness in this log."""
    out = {
        "checks_total": 0, "checks_failed": [], "checks_undetermined": 0,
        "covers": [], "unwinding_failed": [], "unsupported": [],
        "verification": None, "verification_time_s": None,
        "symex_steps": None, "vccs": None, "vccs_remaining": None,
        "sat_vars": None, "sat_clauses": None, "solver_time_s": None,
        "playback": [], "compile_error": False, "stubs": [],
    }
    m = re.search(r"\nRESULTS:\n(.*?)\n\s*SUMMARY:", text, re.S)
    body = m.group(1) if m else ""
    for cm in CHECK_RE.finditer(body):
        _, cid, status, desc, loc = cm.groups()
        loc = (loc or "").strip()
        if ".cover." in cid or desc.startswith("cover condition") or status in (
                "SATISFIED", "UNSATISFIABLE"):
            out["covers"].append({"id": cid, "status": status, "desc": desc, "loc": loc})
            continue
        out["checks_total"] += 1
        if status == "FAILURE":
            rec = {"id": cid, "desc": desc, "loc": loc}
            if ".unwind." in cid or "unwinding assertion" in desc:
                out["unwinding_failed"].append(rec)
            elif ("unsupported" in cid or "is not currently supported by Kani" in desc
                  or "unsupported" in desc.lower()):
                out["unsupported"].append(rec)
            else:
                out["checks_failed"].append(rec)
        elif status in ("UNDETERMINED", "ERROR"):
            out["checks_undetermined"] += 1
    m = re.search(r"VERIFICATION:- (\w+)", text)
    if m:
        out["verification"] = m.group(1)
    m = re.search(r"Verification Time: ([0-9.]+)s", text)
    if m:
        out["verification_time_s"] = float(m.group(1))
    m = re.search(r"size of program expression: (\d+) steps", text)
    if m:
        out["symex_steps"] = int(m.group(1))
    m = re.search(r"Generated (\d+) VCC\(s\), (\d+) remaining after simplification", text)
    if m:
        out["vccs"], out["vccs_remaining"] = int(m.group(1)), int(m.group(2))
    ms = re.findall(r"\n(\d+) variables, (\d+) clauses", text)
    if ms:
        out["sat_vars"] = max(int(a) for a, _ in ms)
        out["sat_clauses"] = max(int(b) for _, b in ms)
    ts = re.findall(r"Runtime Solver: ([0-9.e+-]+)s", text)
    if ts:
        out["solver_time_s"] = round(sum(float(x) for x in ts), 4)
    ts = re.findall(r"Runtime decision procedure: ([0-9.e+-]+)s", text)
    if ts:
        out["decision_time_s"] = round(sum(float(x) for x in ts), 4)
    out["solver_queries"] = len(re.findall(r"SAT checker: instance is", text)) + \
        len(re.findall(r"SAT checker inconsistent|UNSAT \(simplif", text))
    out["stubs"] = re.findall(r"- Stub: (\S+)", text)
    # concrete playback tests printed by Kani
    for pm in re.finditer(r"Concrete playback unit test for `(.*?)`:\n```\n(.*?)\n```", text, re.S):
        out["playback"].append({"harness": pm.group(1), "code": pm.group(2)})
    if re.search(r"^error(\[E\d+\])?:", text, re.M) and out["verification"] is None:
        out["compile_error"] = True
    out["oom"] = bool(re.search(r"std::bad_alloc|[Oo]ut of memory|ran out of memory|memory exhausted|SIGKILL|Killed", text))
    out["crash"] = bool(re.search(r"Kani unexpectedly panicked|internal compiler error|CBMC failed|"
                                  r"thread 'rustc' panicked|exited with status", text))
    return out


def classify(res, h):
    """SUCCESS / FAILURE / UNDECIDED for one harness."""
    if res["checks_failed"]:
        return "FAILURE", "failed checks: " + "; ".join(c["desc"] for c in res["checks_failed"][:3])
    if res["timed_out"]:
        return "UNDECIDED", "wall cap reached"
    if res["compile_error"]:
        return "UNDECIDED", "harness did not compile against this tree"
    if res["oom"]:
        return "UNDECIDED", "solver ran out of memory under the cap"
    if res["verification"] is None:
        why = "tool crash" if res["crash"] else "no verdict"
        return "UNDECIDED", why
    if res["unwinding_failed"]:
        return "UNDECIDED", "unwinding bound too small: " + res["unwinding_failed"][0]["loc"]
    if res["unsupported"]:
        return "UNDECIDED", "unsupported construct reached: " + res["unsupported"][0]["desc"][:100]
    if res["checks_undetermined"]:
        return "UNDECIDED", "%d checks undetermined" % res["checks_undetermined"]
    if res["verification"] != "SUCCESSFUL":
        return "UNDECIDED", "verdict " + str(res["verification"])
    if res["checks_total"] == 0:
        return "UNDECIDED", "no checks reported"
    bad = [c for c in res["covers"] if c["status"] != "SATISFIED"]
    if bad:
        return "UNDECIDED", "cover witness not satisfied (vacuity guard): " + bad[0]["desc"]
    need = h.get("min_covers", 1)
    if len(res["covers"]) < need:
        return "UNDECIDED", "expected at least %d cover witnesses, saw %d" % (need, len(res["covers"]))
    return "SUCCESS", ""


# --------------------------------------------------------------------------
# native replay of a counterexample
# --------------------------------------------------------------------------

def replay_failure(scratch, src, crate, modinfo, res):
    """Insert Kani's concrete-playback unit tests into the scratch harness copy
    and run them natively (dev and release). Returns (reproduced, detail, code)."""
    tests = res.get("playback") or []
    if not tests:
        return False, "Kani produced no concrete playback test", ""
    hfile = os.path.join(scratch, "h", modinfo["file"])
    # Kani prints one test per failing check / satisfied cover; identical witnesses give
    # identical function names, so keep one copy of each
    seen = set()
    uniq = []
    for t in tests:
        m = re.search(r"fn (kani_concrete_playback_\w+)", t["code"])
        if m and m.group(1) not in seen:
            seen.add(m.group(1))
            uniq.append(t["code"])
    code = "\n".join(uniq)
    names = sorted(seen)[:6]
    with open(hfile, "a") as f:
        f.write("\n// ---- concrete playback (inserted by the driver) ----\n" + code + "\n")
    env = dict(os.environ)
    env["CARGO_NET_OFFLINE"] = "true"
    # one playback target directory per check run (dependencies are built once per profile),
    # seeded from the cache built by bin/setup when present
    tdir = os.path.join(scratch, "t", "playback")
    if not os.path.isdir(tdir):
        cache = os.path.join(CACHE, "kani-playback-target")
        if os.path.isdir(cache):
            sh(["cp", "-a", cache, tdir])
    env["CARGO_TARGET_DIR"] = tdir  # `cargo kani playback` rejects --target-dir
    detail = []
    reproduced = {}
    for prof in ("dev", "release"):
        penv = dict(env)
        if prof == "release":
            # `cargo kani playback` has no --release: give the test profile release settings
            penv.update({"CARGO_PROFILE_DEV_OPT_LEVEL": "3",
                         "CARGO_PROFILE_DEV_DEBUG_ASSERTIONS": "false",
                         "CARGO_PROFILE_DEV_OVERFLOW_CHECKS": "false",
                         "CARGO_PROFILE_TEST_OPT_LEVEL": "3",
                         "CARGO_PROFILE_TEST_DEBUG_ASSERTIONS": "false",
                         "CARGO_PROFILE_TEST_OVERFLOW_CHECKS": "false"})
        for tn in names:
            cmd = ["cargo", "kani", "playback", "-Z", "concrete-playback", "-p", PKG[crate], "--lib",
                   "--", tn]
            r = sh(cmd, cwd=src, env=penv)
            failed = bool(re.search(r"test result: FAILED", r.stdout))
            ran = bool(re.search(r"running 1 test", r.stdout))
            if re.search(r"could not compile", r.stdout):
                detail.append("[%s profile] REPLAY BUILD FAILED (harness does not compile natively):\n%s"
                              % (prof, "\n".join(l for l in r.stdout.splitlines() if l.startswith("error"))[:1500]))
            reproduced[(prof, tn)] = failed and ran
            lines = [l for l in r.stdout.strip().splitlines() if len(l) < 400]
            tail = "\n".join(lines[-18:])
            detail.append("[%s profile] %s -> %s\n%s" % (prof, tn, "FAILS natively" if failed and ran
                                                 else "does not fail", tail))
    ok = any(reproduced.values())
    return ok, "\n".join(detail), code


# --------------------------------------------------------------------------
# main
# --------------------------------------------------------------------------

def load_known():
    try:
        return json.load(open(KNOWN))
    except Exception:
        return {"known": [], "fixed": []}


def main(argv):
    import argparse
    ap = argparse.ArgumentParser()
    ap.add_argument("prop")
    ap.add_argument("--tier", default=os.environ.get("VERIF_TIER", "quick"),
                    choices=["quick", "thorough"])
    ap.add_argument("--replay", default=None)
    ap.add_argument("--only", default=None, help="comma separated harness names")
    ap.add_argument("--keep", action="store_true")
    ap.add_argument("--jobs", type=int, default=int(os.environ.get("VERIF_JOBS", "0")))
    ap.add_argument("--no-evidence", action="store_true")
    a = ap.parse_args(argv)
    prop = a.prop
    if prop not in SPEC.PROPS:
        log("unknown property %s" % prop)
        return 2
    P = SPEC.PROPS[prop]
    seed = int(os.environ.get("VERIF_SEED", "0") or 0)
    t0 = time.time()
    if a.replay:
        return do_replay(prop, P, a.replay)

    harnesses = [h for h in P["harnesses"]
                 if a.tier == "thorough" or h.get("tier", "quick") == "quick"]
    if a.only:
        only = set(a.only.split(","))
        harnesses = [h for h in P["harnesses"] if h["name"] in only]
    # VERIF_SEED only orders the harness list; nothing is sampled
    if seed:
        import random
        random.Random(seed).shuffle(harnesses)
    mods = {m["mod"]: m for m in P["modules"]}
    scratch = make_scratch(prop)
    rc = 2
    try:
        try:
            src = snapshot(scratch, P["modules"], P.get("rewrites", ()))
        except Instrumentation as e:
            log("UNDECIDED property=%s instrumentation no longer applies: %s" % (prop, e))
            write_evidence(prop, a.tier, seed, P, [], time.time() - t0, 0, [],
                           note="instrumentation failed: %s" % e, digest="")
            return 2
        digest = tree_digest(src)
        # schedule: memory-aware parallelism
        budget_gb = int(os.environ.get("VERIF_MEM_GB", "52"))
        maxjobs = a.jobs or int(os.environ.get("VERIF_MAXJOBS", "8"))
        results = schedule(scratch, src, P, mods, harnesses, budget_gb, maxjobs)
        known = load_known()
        violations = []
        known_hits = []
        undecided_core = []
        for h, res in results:
            status, why = classify(res, h)
            res["status"], res["why"] = status, why
            log("[%s] %-34s %-9s cbmc=%ss wall=%ss checks=%d covers=%d/%d %s" % (
                prop, h["name"], status, res["verification_time_s"], res["wall_s"],
                res["checks_total"],
                sum(1 for c in res["covers"] if c["status"] == "SATISFIED"), len(res["covers"]),
                why))
            if status == "FAILURE" and len(violations) >= 2:
                res["status"] = "FAILURE"
                res["why"] += " (not replayed: two violations of this property are already confirmed natively)"
                log("[%s] %s fails too; not replayed (two violations already confirmed)" % (prop, h["name"]))
                continue
            if status == "FAILURE":
                m = mods[h["mod"]]
                ok, detail, code = replay_failure(scratch, src, m.get("crate", P["crate"]), m, res)
                res["replay_reproduced"] = ok
                res["replay_detail"] = detail[-4000:]
                if not ok:
                    res["status"] = "UNDECIDED"
                    res["why"] = "counterexample did not reproduce natively"
                    log("[%s] %s counterexample did NOT reproduce natively:\n%s"
                        % (prop, h["name"], detail[-1500:]))
                    undecided_core.append(h["name"])
                    continue
                roles = sorted(set(role_of(c) for c in res["checks_failed"]))
                kf = [k for k in known.get("known", [])
                      if k.get("property") == prop and k.get("harness") == h["name"]
                      and k.get("role") in roles]
                unknown_roles = [r for r in roles
                                 if not any(k.get("role") == r for k in kf)]
                for k in kf:
                    known_hits.append(k)
                if unknown_roles:
                    rp = save_replay(prop, h, m, res, code, detail, digest)
                    violations.append((h["name"], rp, unknown_roles))
            elif status == "UNDECIDED" and h.get("core", True):
                undecided_core.append(h["name"])
        for k in known_hits:
            log("KNOWN-FINDING: property=%s %s" % (prop, k.get("what", k.get("role"))))
        for name, rp, roles in violations:
            log("VIOLATION property=%s replay=%s" % (prop, rp))
            log("  violation detail: harness=%s failing=%s" % (name, roles))
        if violations:
            rc = 1
        elif undecided_core:
            log("UNDECIDED property=%s harnesses=%s" % (prop, ",".join(undecided_core)))
            rc = 2
        else:
            rc = 0
        if not a.no_evidence:
            write_evidence(prop, a.tier, seed, P, results, time.time() - t0, len(violations),
                           known_hits, digest=digest)
        log("[%s] tier=%s exit=%d wall=%.0fs" % (prop, a.tier, rc, time.time() - t0))
        return rc
    finally:
        try:
            ld = os.path.join(CACHE, "logs", prop)
            shutil.rmtree(ld, ignore_errors=True)
            shutil.copytree(os.path.join(scratch, "log"), ld)
        except Exception:
            pass
        if a.keep:
            log("scratch kept at " + scratch)
        else:
            shutil.rmtree(scratch, ignore_errors=True)


def role_of(check):
    """Stable key for a failing check: its description (line numbers dropped)."""
    return re.sub(r"\s+", " ", check["desc"]).strip()


def schedule(scratch, src, P, mods, harnesses, budget_gb, maxjobs):
    """Run harnesses in parallel subject to a memory budget (sum of mem caps)."""
    import threading
    lock = threading.Condition()
    state = {"mem": 0, "jobs": 0}
    results = [None] * len(harnesses)

    def work(i, h):
        # scheduling uses the expected resident size; `mem_gb` is the (virtual) ulimit -v cap
        need = h.get("rss_gb", min(h.get("mem_gb", 8), 6))
        with lock:
            while state["jobs"] >= maxjobs or (state["mem"] + need > budget_gb and state["jobs"] > 0):
                lock.wait()
            state["mem"] += need
            state["jobs"] += 1
        try:
            full = module_path(mods[h["mod"]]["host"], h["mod"]) + "::" + h["name"]
            crate = mods[h["mod"]].get("crate", P["crate"])
            results[i] = (h, run_harness(scratch, src, crate, full, h))
        finally:
            with lock:
                state["mem"] -= need
                state["jobs"] -= 1
                lock.notify_all()

    order = sorted(range(len(harnesses)), key=lambda i: -harnesses[i].get("timeout", 600))
    with ThreadPoolExecutor(max_workers=max(1, len(harnesses))) as ex:
        futs = [ex.submit(work, i, harnesses[i]) for i in order]
        for f in futs:
            f.result()
    return results


def save_replay(prop, h, m, res, code, detail, digest):
    d = os.path.join(VERIF, "replays", prop)
    os.makedirs(d, exist_ok=True)
    p = os.path.join(d, h["name"] + ".rs")
    with open(p, "w") as f:
        f.write("// VIOLATION of %s found by harness %s (module %s)\n" % (prop, h["name"], m["file"]))
        f.write("// tree digest %s\n" % digest)
        f.write("// failing checks:\n")
        for c in res["checks_failed"]:
            f.write("//   %s  @ %s\n" % (c["desc"], c["loc"]))
        f.write("// native replay (cargo kani playback, dev and release):\n")
        for line in detail.splitlines()[-60:]:
            f.write("//   " + line + "\n")
        f.write("// replay: /verif/bin/check %s --replay %s\n" % (prop, p))
        f.write("//@harness %s\n//@mod %s\n" % (h["name"], h["mod"]))
        f.write(code + "\n")
    return p


def do_replay(prop, P, path):
    text = open(path).read()
    hm = re.search(r"//@harness (\S+)", text)
    mm = re.search(r"//@mod (\S+)", text)
    if not hm or not mm:
        log("not a replay file written by this driver")
        return 2
    mods = {m["mod"]: m for m in P["modules"]}
    m = mods[mm.group(1)]
    code = text.split("//@mod", 1)[1].split("\n", 1)[1]
    scratch = make_scratch(prop + "-replay")
    try:
        src = snapshot(scratch, P["modules"], P.get("rewrites", ()))
        res = {"playback": [{"harness": hm.group(1), "code": code}]}
        ok, detail, _ = replay_failure(scratch, src, m.get("crate", P["crate"]), m, res)
        log(detail)
        if ok:
            log("VIOLATION property=%s replay=%s" % (prop, path))
            return 1
        log("replay does not fail on the current tree")
        return 0
    finally:
        shutil.rmtree(scratch, ignore_errors=True)


def write_evidence(prop, tier, seed, P, results, wall, nviol, known_hits, digest, note=None):
    hs = []
    total_checks = 0
    total_discharged = 0
    covers_sat = 0
    samples = []
    solver_time = 0.0
    cbmc_time = 0.0
    queries = 0
    encoded = set()
    stubs = set()
    assumptions = set(P.get("assumptions", []))
    undecided = []
    prop_asserts = 0
    for h, res in results:
        status = res.get("status")
        total_checks += res["checks_total"]
        if status == "SUCCESS":
            total_discharged += res["checks_total"]
            prop_asserts += sum(1 for _ in range(h.get("n_asserts", 0)))
        covers_sat += sum(1 for c in res["covers"] if c["status"] == "SATISFIED")
        solver_time += res.get("solver_time_s") or 0
        cbmc_time += res.get("verification_time_s") or 0
        queries += res.get("solver_queries") or 0
        for e in h.get("encodes", []):
            encoded.add(e)
        for s in res.get("stubs", []):
            stubs.add(s)
        for s in h.get("assumes", []):
            assumptions.add("%s: %s" % (h["name"], s))
        if status != "SUCCESS":
            undecided.append({"harness": h["name"], "status": status, "why": res.get("why")})
        hs.append({
            "harness": h["name"], "status": status, "why": res.get("why"),
            "core": h.get("core", True), "bound": h.get("bound"), "oracle": h.get("oracle"),
            "symbolic_inputs": h.get("symbolic"), "functions_encoded": h.get("encodes"),
            "declared_stubs_and_rewrites": h.get("stubs"),
            "cbmc_checks": res["checks_total"],
            "cover_witnesses": [{"desc": c["desc"], "status": c["status"]} for c in res["covers"]],
            "cbmc_time_s": res.get("verification_time_s"), "solver_time_s": res.get("solver_time_s"),
            "wall_s": res.get("wall_s"), "symex_steps": res.get("symex_steps"),
            "vccs": res.get("vccs"), "vccs_after_simplification": res.get("vccs_remaining"),
            "sat_vars": res.get("sat_vars"), "sat_clauses": res.get("sat_clauses"),
            "solver_queries": res.get("solver_queries"),
            "cmd": res.get("cmd"), "per_loop_unwind": res.get("unwindset"),
            "replay_reproduced": res.get("replay_reproduced"),
        })
        # one witness per harness as a sample: the cover conditions with Kani's concrete values
        for t in (res.get("playback") or [])[:2]:
            vals = re.findall(r"// (.*)\n\s*vec!\[(.*?)\]", t["code"])
            samples.append({"harness": h["name"], "kind": "solver witness (concrete playback)",
                            "values": [{"value": a.strip(), "bytes": b.strip()} for a, b in vals][:12]})
        if not res.get("playback"):
            for c in res["covers"][:2]:
                samples.append({"harness": h["name"], "kind": "cover condition " + c["status"],
                                "cover": c["desc"]})
    if not samples:
        samples.append({"note": note or "no harness produced a result"})
    ev = {
        "property_id": prop,
        "tier": tier,
        "seed": seed,
        "level": "model_checking",
        "coverage": {
            "evaluations": max(total_checks, 0),
            "distinct_nontrivial": covers_sat + sum(1 for h, r in results if r.get("status") == "SUCCESS"),
            "rule": "evaluations = CBMC checks (harness assertions + Kani-inserted panic/overflow/bounds/"
                    "unwinding checks) decided by the SAT solver over all values of the symbolic inputs "
                    "within the stated unwinding bounds; distinct_nontrivial = harnesses decided SUCCESS "
                    "plus cover witnesses SATISFIED (each a distinct reachable outcome class, proving the "
                    "harness is not vacuous)",
            "samples": samples[:24],
            "exhaustive": False,
            "harnesses": hs,
            "functions_encoded": sorted(encoded),
            "cbmc_checks_total": total_checks,
            "cbmc_checks_discharged": total_discharged,
            "solver_queries": queries,
            "solver_time_s": round(solver_time, 3),
            "cbmc_time_s": round(cbmc_time, 3),
            "stubs": sorted(stubs),
            "undecided": undecided,
            "known_findings_hit": known_hits,
            "repo_tree_digest": digest,
            "engine": "Kani 0.68.0 / CBMC 6.11.0 / CaDiCaL; encoding regenerated from /repo's working tree on this run",
            "not_covered": P.get("not_covered"),
        },
        "assumptions": sorted(assumptions) + SPEC.COMMON_ASSUMPTIONS,
        "wall_s": round(wall, 1),
        "violations": nviol,
    }
    if note:
        ev["coverage"]["note"] = note
    os.makedirs(os.path.join(VERIF, "evidence"), exist_ok=True)
    with open(os.path.join(VERIF, "evidence", prop + ".json"), "w") as f:
        json.dump(ev, f, indent=1)


if __name__ == "__main__":
    sys.exit(main(sys.argv[1:]))
