//! Stand-in for the `backtrace` crate, used only inside the Kani scratch copy:
//! the real crate does not compile under Kani's std overrides. Only
//! `engine/src/panic.rs` uses it (capturing a backtrace in the panic hook),
//! which no harness reaches.
#[derive(Debug, Default, Clone)]
pub struct Backtrace;

impl Backtrace {
    pub fn new() -> Self {
        Backtrace
    }
}
