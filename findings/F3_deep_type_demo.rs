use wirefilter::Type;
fn nest(n: usize) -> String { let mut s = String::from("\"Int\""); for _ in 0..n { s = format!("{{\"Array\":{}}}", s); } s }
#[test]
fn deep_type_is_error_not_panic() {
    assert!(serde_json::from_str::<Type>(&nest(33)).is_ok());
    for n in [34usize, 35, 64, 100] {
        let r = std::panic::catch_unwind(|| serde_json::from_str::<Type>(&nest(n)).is_err());
        assert_eq!(r.ok(), Some(true), "depth {n}");
    }
}
