use wirefilter::{Scheme, SchemeBuilder, Type};
#[test]
fn scheme_json_all_entry_points() {
    let mut b = SchemeBuilder::new();
    b.add_field("a.b", Type::Int).unwrap();
    b.add_field("c\"d", Type::Bytes).unwrap();
    b.add_optional_field("é", Type::Array(Type::Ip.into())).unwrap();
    let s = b.build();
    let json = serde_json::to_string(&s).unwrap();
    let check = |r: Result<Scheme, serde_json::Error>, how: &str| {
        let t = r.unwrap_or_else(|e| panic!("{how}: {e}"));
        assert_eq!(serde_json::to_string(&t).unwrap(), json, "{how}");
        let names: Vec<_> = t.fields().map(|f| (f.name().to_string(), f.get_type(), f.optional())).collect();
        let want: Vec<_> = s.fields().map(|f| (f.name().to_string(), f.get_type(), f.optional())).collect();
        assert_eq!(names, want, "{how}");
    };
    use wirefilter::GetType;
    check(serde_json::from_str::<Scheme>(&json), "str");
    check(serde_json::from_slice::<Scheme>(json.as_bytes()), "bytes");
    check(serde_json::from_reader::<_, Scheme>(json.as_bytes()), "reader");
    check(serde_json::from_value::<Scheme>(serde_json::from_str(&json).unwrap()), "value");
    // duplicate names are still refused
    assert!(serde_json::from_str::<Scheme>(r#"{"x":{"type":"Int","optional":false},"x":{"type":"Int","optional":false}}"#).is_err());
}
