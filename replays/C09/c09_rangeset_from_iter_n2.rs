// VIOLATION of C09 found by harness c09_rangeset_from_iter_n2 (module engine/c09_rangeset.rs)
// tree digest dfdb0b123a2ab83d
// failing checks:
//   "collect::<RangeSet>() disagrees with membership"  @ ../h/engine/c09_rangeset.rs:102:5 in function range_set::verif_kani_c09::c09_rangeset_from_iter_n2
// native replay (cargo kani playback, dev and release):
//   
//   error: test failed, to rerun pass `-p wirefilter-engine --lib`
//   error: /root/.kani/kani-0.68.0/toolchain/bin/cargo exited with status exit status: 101
//   [release profile] kani_concrete_playback_c09_rangeset_from_iter_n2_12454469938264190135 -> does not fail
//   590 | |             kani::assume(llen <= 4);
//   ...   |
//   614 | |             kani::cover!($n == 0 || (!got && llen >= $n));
//       | |____________________________________________________^
//   ...
//   621 |   contains_dispatch_harness!(c10_contains_dispatch_n0, 0, 8);
//       |   ---------------------------------------------------------- in this macro invocation
//       |
//       = note: this warning originates in the macro `contains_dispatch_harness` (in Nightly builds, run with -Z macro-backtrace for more info)
//   
//   warning: `wirefilter-engine` (lib test) generated 14 warnings (1 duplicate)
//       Finished `test` profile [optimized + debuginfo] target(s) in 5m 21s
//        Running unittests src/lib.rs (/tmp/wfk-C09-ez5emw_c/t/playback/x86_64-unknown-linux-gnu/debug/build/wirefilter-engine/d90bf24948a58b85/out/wirefilter-d90bf24948a58b85)
//   
//   running 1 test
//   test range_set::verif_kani_c09::kani_concrete_playback_c09_rangeset_from_iter_n2_12454469938264190135 ... ok
//   
//   test result: ok. 1 passed; 0 failed; 0 ignored; 0 measured; 132 filtered out; finished in 0.01s
//   [release profile] kani_concrete_playback_c09_rangeset_from_iter_n2_2451962322725524522 -> does not fail
//   590 | |             kani::assume(llen <= 4);
//   ...   |
//   614 | |             kani::cover!($n == 0 || (!got && llen >= $n));
//       | |____________________________________________________^
//   ...
//   621 |   contains_dispatch_harness!(c10_contains_dispatch_n0, 0, 8);
//       |   ---------------------------------------------------------- in this macro invocation
//       |
//       = note: this warning originates in the macro `contains_dispatch_harness` (in Nightly builds, run with -Z macro-backtrace for more info)
//   
//   warning: `wirefilter-engine` (lib test) generated 14 warnings (1 duplicate)
//       Finished `test` profile [optimized + debuginfo] target(s) in 0.88s
//        Running unittests src/lib.rs (/tmp/wfk-C09-ez5emw_c/t/playback/x86_64-unknown-linux-gnu/debug/build/wirefilter-engine/d90bf24948a58b85/out/wirefilter-d90bf24948a58b85)
//   
//   running 1 test
//   test range_set::verif_kani_c09::kani_concrete_playback_c09_rangeset_from_iter_n2_2451962322725524522 ... ok
//   
//   test result: ok. 1 passed; 0 failed; 0 ignored; 0 measured; 132 filtered out; finished in 0.02s
//   [release profile] kani_concrete_playback_c09_rangeset_from_iter_n2_8692387978266940243 -> FAILS natively
//      5: wirefilter::range_set::verif_kani_c09::kani_concrete_playback_c09_rangeset_from_iter_n2_8692387978266940243
//                at /tmp/wfk-C09-ez5emw_c/h/engine/c09_rangeset.rs:273:5
//      6: wirefilter::range_set::verif_kani_c09::kani_concrete_playback_c09_rangeset_from_iter_n2_8692387978266940243::{closure#0}
//                at /tmp/wfk-C09-ez5emw_c/h/engine/c09_rangeset.rs:260:74
//      7: <wirefilter::range_set::verif_kani_c09::kani_concrete_playback_c09_rangeset_from_iter_n2_8692387978266940243::{closure#0} as core::ops::function::FnOnce<()>>::call_once
//                at /home/runner/.rustup/toolchains/nightly-2026-08-21-x86_64-unknown-linux-gnu/lib/rustlib/src/rust/library/core/src/ops/function.rs:250:5
//      8: <fn() -> core::result::Result<(), alloc::string::String> as core::ops::function::FnOnce<()>>::call_once
//                at /home/runner/.rustup/toolchains/nightly-2026-08-21-x86_64-unknown-linux-gnu/lib/rustlib/src/rust/library/core/src/ops/function.rs:250:5
//   note: Some details are omitted, run with `RUST_BACKTRACE=full` for a verbose backtrace.
//   
//   
//   failures:
//       range_set::verif_kani_c09::kani_concrete_playback_c09_rangeset_from_iter_n2_8692387978266940243
//   
//   test result: FAILED. 0 passed; 1 failed; 0 ignored; 0 measured; 132 filtered out; finished in 3.95s
//   
//   error: test failed, to rerun pass `-p wirefilter-engine --lib`
//   error: /root/.kani/kani-0.68.0/toolchain/bin/cargo exited with status exit status: 101
// replay: /verif/bin/check C09 --replay /verif/replays/C09/c09_rangeset_from_iter_n2.rs
//@harness c09_rangeset_from_iter_n2
//@mod verif_kani_c09
/// Test generated for harness `range_set::verif_kani_c09::c09_rangeset_from_iter_n2` 
///
/// Check for `assertion`: ""collect::<RangeSet>() disagrees with membership""

#[test]
fn kani_concrete_playback_c09_rangeset_from_iter_n2_8692387978266940243() {
    let concrete_vals: Vec<Vec<u8>> = vec![
        // -8791026472627208192
        vec![0, 0, 0, 0, 0, 0, 0, 134],
        // -864691128455134140
        vec![68, 4, 0, 0, 0, 0, 0, 244],
        // -9223372036854775776
        vec![32, 0, 0, 0, 0, 0, 0, 128],
        // 8502796096475497541
        vec![69, 4, 0, 0, 0, 0, 0, 118],
        // 8502796096475497541
        vec![69, 4, 0, 0, 0, 0, 0, 118],
    ];
    kani::concrete_playback_run(concrete_vals, c09_rangeset_from_iter_n2);
}
/// Test generated for harness `range_set::verif_kani_c09::c09_rangeset_from_iter_n2` 
///
/// Check for `cover`: "cover condition: want && a == c && b == d"

#[test]
fn kani_concrete_playback_c09_rangeset_from_iter_n2_12454469938264190135() {
    let concrete_vals: Vec<Vec<u8>> = vec![
        // 7493989779944504480
        vec![160, 252, 255, 255, 255, 255, 255, 103],
        // 8791026472627220455
        vec![231, 47, 0, 0, 0, 0, 0, 122],
        // 7493989779944504480
        vec![160, 252, 255, 255, 255, 255, 255, 103],
        // 8791026472627220455
        vec![231, 47, 0, 0, 0, 0, 0, 122],
        // 8791026472627220257
        vec![33, 47, 0, 0, 0, 0, 0, 122],
    ];
    kani::concrete_playback_run(concrete_vals, c09_rangeset_from_iter_n2);
}
/// Test generated for harness `range_set::verif_kani_c09::c09_rangeset_from_iter_n2` 
///
/// Check for `cover`: "cover condition: !want"

#[test]
fn kani_concrete_playback_c09_rangeset_from_iter_n2_2451962322725524522() {
    let concrete_vals: Vec<Vec<u8>> = vec![
        // -864691128455138307
        vec![253, 243, 255, 255, 255, 255, 255, 243],
        // 8935141660703060988
        vec![252, 243, 255, 255, 255, 255, 255, 123],
        // -864691128455138311
        vec![249, 243, 255, 255, 255, 255, 255, 243],
        // 8935141660703060989
        vec![253, 243, 255, 255, 255, 255, 255, 123],
        // -5620492334958380656
        vec![144, 249, 255, 255, 255, 255, 255, 177],
    ];
    kani::concrete_playback_run(concrete_vals, c09_rangeset_from_iter_n2);
}
