// VIOLATION of C09 found by harness c09_oneof_int (module engine/cmp_arms.rs)
// tree digest dfdb0b123a2ab83d
// failing checks:
//   "`x in {{..}}` differs from 'some listed item equals or contains x'"  @ ../h/engine/cmp_arms.rs:317:5 in function scheme::verif_kani_cmp::c09_oneof_int
// native replay (cargo kani playback, dev and release):
//   
//   error: test failed, to rerun pass `-p wirefilter-engine --lib`
//   error: /root/.kani/kani-0.68.0/toolchain/bin/cargo exited with status exit status: 101
//   [release profile] kani_concrete_playback_c09_oneof_int_6057833103507107325 -> FAILS natively
//      6: wirefilter::scheme::verif_kani_cmp::kani_concrete_playback_c09_oneof_int_6057833103507107325
//                at /tmp/wfk-C09-ez5emw_c/h/engine/cmp_arms.rs:893:5
//      7: wirefilter::scheme::verif_kani_cmp::kani_concrete_playback_c09_oneof_int_6057833103507107325::{closure#0}
//                at /tmp/wfk-C09-ez5emw_c/h/engine/cmp_arms.rs:876:62
//      8: <wirefilter::scheme::verif_kani_cmp::kani_concrete_playback_c09_oneof_int_6057833103507107325::{closure#0} as core::ops::function::FnOnce<()>>::call_once
//                at /home/runner/.rustup/toolchains/nightly-2026-08-21-x86_64-unknown-linux-gnu/lib/rustlib/src/rust/library/core/src/ops/function.rs:250:5
//      9: <fn() -> core::result::Result<(), alloc::string::String> as core::ops::function::FnOnce<()>>::call_once
//                at /home/runner/.rustup/toolchains/nightly-2026-08-21-x86_64-unknown-linux-gnu/lib/rustlib/src/rust/library/core/src/ops/function.rs:250:5
//   note: Some details are omitted, run with `RUST_BACKTRACE=full` for a verbose backtrace.
//   
//   
//   failures:
//       scheme::verif_kani_cmp::kani_concrete_playback_c09_oneof_int_6057833103507107325
//   
//   test result: FAILED. 0 passed; 1 failed; 0 ignored; 0 measured; 123 filtered out; finished in 3.71s
//   
//   error: test failed, to rerun pass `-p wirefilter-engine --lib`
//   error: /root/.kani/kani-0.68.0/toolchain/bin/cargo exited with status exit status: 101
//   [release profile] kani_concrete_playback_c09_oneof_int_6268723589975488475 -> FAILS natively
//      6: wirefilter::scheme::verif_kani_cmp::kani_concrete_playback_c09_oneof_int_6268723589975488475
//                at /tmp/wfk-C09-ez5emw_c/h/engine/cmp_arms.rs:858:5
//      7: wirefilter::scheme::verif_kani_cmp::kani_concrete_playback_c09_oneof_int_6268723589975488475::{closure#0}
//                at /tmp/wfk-C09-ez5emw_c/h/engine/cmp_arms.rs:841:62
//      8: <wirefilter::scheme::verif_kani_cmp::kani_concrete_playback_c09_oneof_int_6268723589975488475::{closure#0} as core::ops::function::FnOnce<()>>::call_once
//                at /home/runner/.rustup/toolchains/nightly-2026-08-21-x86_64-unknown-linux-gnu/lib/rustlib/src/rust/library/core/src/ops/function.rs:250:5
//      9: <fn() -> core::result::Result<(), alloc::string::String> as core::ops::function::FnOnce<()>>::call_once
//                at /home/runner/.rustup/toolchains/nightly-2026-08-21-x86_64-unknown-linux-gnu/lib/rustlib/src/rust/library/core/src/ops/function.rs:250:5
//   note: Some details are omitted, run with `RUST_BACKTRACE=full` for a verbose backtrace.
//   
//   
//   failures:
//       scheme::verif_kani_cmp::kani_concrete_playback_c09_oneof_int_6268723589975488475
//   
//   test result: FAILED. 0 passed; 1 failed; 0 ignored; 0 measured; 123 filtered out; finished in 1.17s
//   
//   error: test failed, to rerun pass `-p wirefilter-engine --lib`
//   error: /root/.kani/kani-0.68.0/toolchain/bin/cargo exited with status exit status: 101
//   [release profile] kani_concrete_playback_c09_oneof_int_9594720176711693644 -> FAILS natively
//      6: wirefilter::scheme::verif_kani_cmp::kani_concrete_playback_c09_oneof_int_9594720176711693644
//                at /tmp/wfk-C09-ez5emw_c/h/engine/cmp_arms.rs:963:5
//      7: wirefilter::scheme::verif_kani_cmp::kani_concrete_playback_c09_oneof_int_9594720176711693644::{closure#0}
//                at /tmp/wfk-C09-ez5emw_c/h/engine/cmp_arms.rs:946:62
//      8: <wirefilter::scheme::verif_kani_cmp::kani_concrete_playback_c09_oneof_int_9594720176711693644::{closure#0} as core::ops::function::FnOnce<()>>::call_once
//                at /home/runner/.rustup/toolchains/nightly-2026-08-21-x86_64-unknown-linux-gnu/lib/rustlib/src/rust/library/core/src/ops/function.rs:250:5
//      9: <fn() -> core::result::Result<(), alloc::string::String> as core::ops::function::FnOnce<()>>::call_once
//                at /home/runner/.rustup/toolchains/nightly-2026-08-21-x86_64-unknown-linux-gnu/lib/rustlib/src/rust/library/core/src/ops/function.rs:250:5
//   note: Some details are omitted, run with `RUST_BACKTRACE=full` for a verbose backtrace.
//   
//   
//   failures:
//       scheme::verif_kani_cmp::kani_concrete_playback_c09_oneof_int_9594720176711693644
//   
//   test result: FAILED. 0 passed; 1 failed; 0 ignored; 0 measured; 123 filtered out; finished in 1.61s
//   
//   error: test failed, to rerun pass `-p wirefilter-engine --lib`
//   error: /root/.kani/kani-0.68.0/toolchain/bin/cargo exited with status exit status: 101
// replay: /verif/bin/check C09 --replay /verif/replays/C09/c09_oneof_int.rs
//@harness c09_oneof_int
//@mod verif_kani_cmp
/// Test generated for harness `scheme::verif_kani_cmp::c09_oneof_int` 
///
/// Check for `assertion`: ""`x in {{..}}` differs from 'some listed item equals or contains x'""
///
/// # Warning
///
/// Concrete playback tests combined with stubs or contracts is highly
/// experimental, and subject to change.
///
/// The original harness has stubs which are not applied to this test.
/// This may cause a mismatch of non-deterministic values if the stub
/// creates any non-deterministic value.
/// The execution path may also differ, which can be used to refine the stub
/// logic.

#[test]
fn kani_concrete_playback_c09_oneof_int_6268723589975488475() {
    let concrete_vals: Vec<Vec<u8>> = vec![
        // 0
        vec![0],
        // -1190919565740081147l
        vec![5, 0, 0, 248, 246, 0, 121, 239],
        // -8409486080973209596l
        vec![4, 0, 0, 248, 246, 128, 75, 139],
        // -1190919565874298876l
        vec![4, 0, 0, 240, 246, 0, 121, 239],
        // -8511803291972141053l
        vec![3, 0, 0, 224, 0, 0, 224, 137],
        // -8511803291972141053l
        vec![3, 0, 0, 224, 0, 0, 224, 137],
        // -1153624127165169659l
        vec![5, 0, 0, 240, 247, 128, 253, 239],
    ];
    kani::concrete_playback_run(concrete_vals, c09_oneof_int);
}
/// Test generated for harness `scheme::verif_kani_cmp::c09_oneof_int` 
///
/// Check for `cover`: "cover condition: got && x == b0 && !(a0 <= x && x <= a1)"
///
/// # Warning
///
/// Concrete playback tests combined with stubs or contracts is highly
/// experimental, and subject to change.
///
/// The original harness has stubs which are not applied to this test.
/// This may cause a mismatch of non-deterministic values if the stub
/// creates any non-deterministic value.
/// The execution path may also differ, which can be used to refine the stub
/// logic.

#[test]
fn kani_concrete_playback_c09_oneof_int_6057833103507107325() {
    let concrete_vals: Vec<Vec<u8>> = vec![
        // 0
        vec![0],
        // -939524096l
        vec![0, 0, 0, 200, 255, 255, 255, 255],
        // 9223372036452122625l
        vec![1, 0, 0, 232, 255, 255, 255, 127],
        // 9223372036586340353l
        vec![1, 0, 0, 240, 255, 255, 255, 127],
        // -939524096l
        vec![0, 0, 0, 200, 255, 255, 255, 255],
        // -9218868436153663488l
        vec![0, 0, 0, 64, 0, 0, 16, 128],
        // -536870912l
        vec![0, 0, 0, 224, 255, 255, 255, 255],
    ];
    kani::concrete_playback_run(concrete_vals, c09_oneof_int);
}
/// Test generated for harness `scheme::verif_kani_cmp::c09_oneof_int` 
///
/// Check for `cover`: "cover condition: got && x == i64::MAX"
///
/// # Warning
///
/// Concrete playback tests combined with stubs or contracts is highly
/// experimental, and subject to change.
///
/// The original harness has stubs which are not applied to this test.
/// This may cause a mismatch of non-deterministic values if the stub
/// creates any non-deterministic value.
/// The execution path may also differ, which can be used to refine the stub
/// logic.

#[test]
fn kani_concrete_playback_c09_oneof_int_1869747779138292421() {
    let concrete_vals: Vec<Vec<u8>> = vec![
        // 0
        vec![0],
        // 9223372036854775807l
        vec![255, 255, 255, 255, 255, 255, 255, 127],
        // 9223231296111640579l
        vec![3, 0, 0, 62, 255, 127, 255, 127],
        // 9223372036854775807l
        vec![255, 255, 255, 255, 255, 255, 255, 127],
        // -140740910907390l
        vec![2, 0, 0, 52, 255, 127, 255, 255],
        // -140741783322624l
        vec![0, 0, 0, 0, 255, 127, 255, 255],
        // 9223372036854775807l
        vec![255, 255, 255, 255, 255, 255, 255, 127],
    ];
    kani::concrete_playback_run(concrete_vals, c09_oneof_int);
}
/// Test generated for harness `scheme::verif_kani_cmp::c09_oneof_int` 
///
/// Check for `cover`: "cover condition: !got && a0 == i64::MIN"
///
/// # Warning
///
/// Concrete playback tests combined with stubs or contracts is highly
/// experimental, and subject to change.
///
/// The original harness has stubs which are not applied to this test.
/// This may cause a mismatch of non-deterministic values if the stub
/// creates any non-deterministic value.
/// The execution path may also differ, which can be used to refine the stub
/// logic.

#[test]
fn kani_concrete_playback_c09_oneof_int_9594720176711693644() {
    let concrete_vals: Vec<Vec<u8>> = vec![
        // 0
        vec![0],
        // 8074954132546387970l
        vec![2, 0, 0, 40, 0, 0, 16, 112],
        // -9223372036854775808l
        vec![0, 0, 0, 0, 0, 0, 0, 128],
        // 8074954132412170240l
        vec![0, 0, 0, 32, 0, 0, 16, 112],
        // -1148417903100428287l
        vec![1, 0, 0, 112, 0, 0, 16, 240],
        // -5760103921662033920l
        vec![0, 0, 0, 104, 0, 0, 16, 176],
        // -5760103921527816192l
        vec![0, 0, 0, 112, 0, 0, 16, 176],
    ];
    kani::concrete_playback_run(concrete_vals, c09_oneof_int);
}
