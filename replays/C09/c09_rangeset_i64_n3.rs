// VIOLATION of C09 found by harness c09_rangeset_i64_n3 (module engine/c09_rangeset.rs)
// tree digest dfdb0b123a2ab83d
// failing checks:
//   "RangeSet::contains disagrees with 'some listed range contains x'"  @ ../h/engine/c09_rangeset.rs:61:1 in function range_set::verif_kani_c09::c09_rangeset_i64_n3
// native replay (cargo kani playback, dev and release):
//   test range_set::verif_kani_c09::kani_concrete_playback_c09_rangeset_i64_n3_15466329831205703850 ... ok
//   
//   test result: ok. 1 passed; 0 failed; 0 ignored; 0 measured; 129 filtered out; finished in 0.01s
//   [release profile] kani_concrete_playback_c09_rangeset_i64_n3_6314280114689986345 -> does not fail
//   590 | |             kani::assume(llen <= 4);
//   ...   |
//   614 | |             kani::cover!($n == 0 || (!got && llen >= $n));
//       | |____________________________________________________^
//   ...
//   621 |   contains_dispatch_harness!(c10_contains_dispatch_n0, 0, 8);
//       |   ---------------------------------------------------------- in this macro invocation
//       |
//       = note: this warning originates in the macro `contains_dispatch_harness` (in Nightly builds, run with -Z macro-backtrace for more info)
//   
//   warning: `wirefilter-engine` (lib test) generated 14 warnings (1 duplicate)
//       Finished `test` profile [optimized + debuginfo] target(s) in 4.23s
//        Running unittests src/lib.rs (/tmp/wfk-C09-ez5emw_c/t/playback/x86_64-unknown-linux-gnu/debug/build/wirefilter-engine/d90bf24948a58b85/out/wirefilter-d90bf24948a58b85)
//   
//   running 1 test
//   test range_set::verif_kani_c09::kani_concrete_playback_c09_rangeset_i64_n3_6314280114689986345 ... ok
//   
//   test result: ok. 1 passed; 0 failed; 0 ignored; 0 measured; 129 filtered out; finished in 0.00s
//   [release profile] kani_concrete_playback_c09_rangeset_i64_n3_9046479008550677679 -> does not fail
//   590 | |             kani::assume(llen <= 4);
//   ...   |
//   614 | |             kani::cover!($n == 0 || (!got && llen >= $n));
//       | |____________________________________________________^
//   ...
//   621 |   contains_dispatch_harness!(c10_contains_dispatch_n0, 0, 8);
//       |   ---------------------------------------------------------- in this macro invocation
//       |
//       = note: this warning originates in the macro `contains_dispatch_harness` (in Nightly builds, run with -Z macro-backtrace for more info)
//   
//   warning: `wirefilter-engine` (lib test) generated 14 warnings (1 duplicate)
//       Finished `test` profile [optimized + debuginfo] target(s) in 0.17s
//        Running unittests src/lib.rs (/tmp/wfk-C09-ez5emw_c/t/playback/x86_64-unknown-linux-gnu/debug/build/wirefilter-engine/d90bf24948a58b85/out/wirefilter-d90bf24948a58b85)
//   
//   running 1 test
//   test range_set::verif_kani_c09::kani_concrete_playback_c09_rangeset_i64_n3_9046479008550677679 ... ok
//   
//   test result: ok. 1 passed; 0 failed; 0 ignored; 0 measured; 129 filtered out; finished in 0.00s
//   [release profile] kani_concrete_playback_c09_rangeset_i64_n3_9616608611690845425 -> FAILS natively
//      5: wirefilter::range_set::verif_kani_c09::kani_concrete_playback_c09_rangeset_i64_n3_9616608611690845425
//                at /tmp/wfk-C09-ez5emw_c/h/engine/c09_rangeset.rs:131:5
//      6: wirefilter::range_set::verif_kani_c09::kani_concrete_playback_c09_rangeset_i64_n3_9616608611690845425::{closure#0}
//                at /tmp/wfk-C09-ez5emw_c/h/engine/c09_rangeset.rs:114:68
//      7: <wirefilter::range_set::verif_kani_c09::kani_concrete_playback_c09_rangeset_i64_n3_9616608611690845425::{closure#0} as core::ops::function::FnOnce<()>>::call_once
//                at /home/runner/.rustup/toolchains/nightly-2026-08-21-x86_64-unknown-linux-gnu/lib/rustlib/src/rust/library/core/src/ops/function.rs:250:5
//      8: <fn() -> core::result::Result<(), alloc::string::String> as core::ops::function::FnOnce<()>>::call_once
//                at /home/runner/.rustup/toolchains/nightly-2026-08-21-x86_64-unknown-linux-gnu/lib/rustlib/src/rust/library/core/src/ops/function.rs:250:5
//   note: Some details are omitted, run with `RUST_BACKTRACE=full` for a verbose backtrace.
//   
//   
//   failures:
//       range_set::verif_kani_c09::kani_concrete_playback_c09_rangeset_i64_n3_9616608611690845425
//   
//   test result: FAILED. 0 passed; 1 failed; 0 ignored; 0 measured; 129 filtered out; finished in 3.30s
//   
//   error: test failed, to rerun pass `-p wirefilter-engine --lib`
//   error: /root/.kani/kani-0.68.0/toolchain/bin/cargo exited with status exit status: 101
// replay: /verif/bin/check C09 --replay /verif/replays/C09/c09_rangeset_i64_n3.rs
//@harness c09_rangeset_i64_n3
//@mod verif_kani_c09
/// Test generated for harness `range_set::verif_kani_c09::c09_rangeset_i64_n3` 
///
/// Check for `assertion`: ""RangeSet::contains disagrees with 'some listed range contains x'""

#[test]
fn kani_concrete_playback_c09_rangeset_i64_n3_9616608611690845425() {
    let concrete_vals: Vec<Vec<u8>> = vec![
        // -9223372036854775168
        vec![128, 2, 0, 0, 0, 0, 0, 128],
        // -9223372036854775086
        vec![210, 2, 0, 0, 0, 0, 0, 128],
        // -9199352838842132766
        vec![226, 86, 85, 85, 85, 85, 85, 128],
        // 9223372036854775806
        vec![254, 255, 255, 255, 255, 255, 255, 127],
        // -9115285645797886237
        vec![227, 246, 255, 255, 255, 255, 127, 129],
        // -3891110078048106754
        vec![254, 6, 0, 0, 0, 0, 0, 202],
        // 1261007895663740926
        vec![254, 7, 0, 0, 0, 0, 128, 17],
    ];
    kani::concrete_playback_run(concrete_vals, c09_rangeset_i64_n3);
}
/// Test generated for harness `range_set::verif_kani_c09::c09_rangeset_i64_n3` 
///
/// Check for `cover`: "cover condition: got && overlap && set.ranges.len() < 3"

#[test]
fn kani_concrete_playback_c09_rangeset_i64_n3_15466329831205703850() {
    let concrete_vals: Vec<Vec<u8>> = vec![
        // 347527771245393925
        vec![5, 56, 170, 170, 170, 170, 210, 4],
        // 8702455679956146945
        vec![1, 219, 93, 85, 85, 85, 197, 120],
        // -4317450842772526591
        vec![1, 42, 85, 85, 85, 85, 21, 196],
        // 5572453938933373697
        vec![1, 155, 89, 85, 85, 85, 85, 77],
        // -4281422045753564416
        vec![0, 35, 85, 85, 85, 85, 149, 196],
        // 4054740864509262593
        vec![1, 187, 85, 85, 85, 85, 69, 56],
        // 5495892745267792385
        vec![1, 74, 85, 85, 85, 85, 69, 76],
    ];
    kani::concrete_playback_run(concrete_vals, c09_rangeset_i64_n3);
}
/// Test generated for harness `range_set::verif_kani_c09::c09_rangeset_i64_n3` 
///
/// Check for `cover`: "cover condition: ! got && set.ranges.len() == 3"

#[test]
fn kani_concrete_playback_c09_rangeset_i64_n3_13470198256399226439() {
    let concrete_vals: Vec<Vec<u8>> = vec![
        // 8013023004361489920
        vec![0, 254, 255, 183, 247, 249, 51, 111],
        // 8047952289752669436
        vec![252, 220, 255, 183, 247, 17, 176, 111],
        // -7407310915848118656
        vec![128, 222, 255, 183, 247, 241, 51, 153],
        // -7372372834363908868
        vec![252, 220, 255, 183, 247, 17, 176, 153],
        // 1095001395511164416
        vec![0, 254, 255, 183, 247, 57, 50, 15],
        // 6859611117568655102
        vec![254, 254, 255, 183, 247, 59, 50, 95],
        // -7262623981725819392
        vec![0, 222, 255, 183, 247, 249, 53, 155],
    ];
    kani::concrete_playback_run(concrete_vals, c09_rangeset_i64_n3);
}
/// Test generated for harness `range_set::verif_kani_c09::c09_rangeset_i64_n3` 
///
/// Check for `cover`: "cover condition: got && probe == i64::MIN"

#[test]
fn kani_concrete_playback_c09_rangeset_i64_n3_11631049700884143839() {
    let concrete_vals: Vec<Vec<u8>> = vec![
        // -9223372036854775808
        vec![0, 0, 0, 0, 0, 0, 0, 128],
        // 1202461122269307457
        vec![65, 98, 20, 17, 5, 0, 176, 16],
        // -9223372036854775808
        vec![0, 0, 0, 0, 0, 0, 0, 128],
        // 3895613750976471554
        vec![2, 98, 20, 17, 17, 0, 16, 54],
        // -9223372036854775808
        vec![0, 0, 0, 0, 0, 0, 0, 128],
        // -9223372036854775808
        vec![0, 0, 0, 0, 0, 0, 0, 128],
        // -9223372036854775808
        vec![0, 0, 0, 0, 0, 0, 0, 128],
    ];
    kani::concrete_playback_run(concrete_vals, c09_rangeset_i64_n3);
}
/// Test generated for harness `range_set::verif_kani_c09::c09_rangeset_i64_n3` 
///
/// Check for `cover`: "cover condition: got && probe == i64::MAX"

#[test]
fn kani_concrete_playback_c09_rangeset_i64_n3_9046479008550677679() {
    let concrete_vals: Vec<Vec<u8>> = vec![
        // -6628172751582527488
        vec![0, 0, 0, 0, 0, 0, 4, 164],
        // 9223372036854775806
        vec![254, 255, 255, 255, 255, 255, 255, 127],
        // -6845471364883677188
        vec![252, 255, 255, 255, 15, 0, 0, 161],
        // 3941775595617411649
        vec![65, 98, 20, 17, 5, 0, 180, 54],
        // 9223372036854775807
        vec![255, 255, 255, 255, 255, 255, 255, 127],
        // 9223372036854775807
        vec![255, 255, 255, 255, 255, 255, 255, 127],
        // 9223372036854775807
        vec![255, 255, 255, 255, 255, 255, 255, 127],
    ];
    kani::concrete_playback_run(concrete_vals, c09_rangeset_i64_n3);
}
/// Test generated for harness `range_set::verif_kani_c09::c09_rangeset_i64_n3` 
///
/// Check for `cover`: "cover condition: got && probe == ends [3 - 1] && starts [3 - 1] < ends [3 - 1]"

#[test]
fn kani_concrete_playback_c09_rangeset_i64_n3_6314280114689986345() {
    let concrete_vals: Vec<Vec<u8>> = vec![
        // -9223372036854775808
        vec![0, 0, 0, 0, 0, 0, 0, 128],
        // 1202461122269307457
        vec![65, 98, 20, 17, 5, 0, 176, 16],
        // -9223372036854775808
        vec![0, 0, 0, 0, 0, 0, 0, 128],
        // 3895613750976471554
        vec![2, 98, 20, 17, 17, 0, 16, 54],
        // -9223372036854775808
        vec![0, 0, 0, 0, 0, 0, 0, 128],
        // -9223372036854775807
        vec![1, 0, 0, 0, 0, 0, 0, 128],
        // -9223372036854775807
        vec![1, 0, 0, 0, 0, 0, 0, 128],
    ];
    kani::concrete_playback_run(concrete_vals, c09_rangeset_i64_n3);
}
