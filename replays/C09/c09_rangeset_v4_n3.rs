// VIOLATION of C09 found by harness c09_rangeset_v4_n3 (module engine/c09_rangeset.rs)
// tree digest dfdb0b123a2ab83d
// failing checks:
//   "RangeSet::contains disagrees with 'some listed range contains x'"  @ ../h/engine/c09_rangeset.rs:64:1 in function range_set::verif_kani_c09::c09_rangeset_v4_n3
// native replay (cargo kani playback, dev and release):
//   test range_set::verif_kani_c09::kani_concrete_playback_c09_rangeset_v4_n3_12505112078312845097 ... ok
//   
//   test result: ok. 1 passed; 0 failed; 0 ignored; 0 measured; 137 filtered out; finished in 0.00s
//   [release profile] kani_concrete_playback_c09_rangeset_v4_n3_15941234533533638602 -> does not fail
//   590 | |             kani::assume(llen <= 4);
//   ...   |
//   614 | |             kani::cover!($n == 0 || (!got && llen >= $n));
//       | |____________________________________________________^
//   ...
//   621 |   contains_dispatch_harness!(c10_contains_dispatch_n0, 0, 8);
//       |   ---------------------------------------------------------- in this macro invocation
//       |
//       = note: this warning originates in the macro `contains_dispatch_harness` (in Nightly builds, run with -Z macro-backtrace for more info)
//   
//   warning: `wirefilter-engine` (lib test) generated 14 warnings (1 duplicate)
//       Finished `test` profile [optimized + debuginfo] target(s) in 2.01s
//        Running unittests src/lib.rs (/tmp/wfk-C09-ez5emw_c/t/playback/x86_64-unknown-linux-gnu/debug/build/wirefilter-engine/d90bf24948a58b85/out/wirefilter-d90bf24948a58b85)
//   
//   running 1 test
//   test range_set::verif_kani_c09::kani_concrete_playback_c09_rangeset_v4_n3_15941234533533638602 ... ok
//   
//   test result: ok. 1 passed; 0 failed; 0 ignored; 0 measured; 137 filtered out; finished in 0.00s
//   [release profile] kani_concrete_playback_c09_rangeset_v4_n3_17240304368483991793 -> does not fail
//   590 | |             kani::assume(llen <= 4);
//   ...   |
//   614 | |             kani::cover!($n == 0 || (!got && llen >= $n));
//       | |____________________________________________________^
//   ...
//   621 |   contains_dispatch_harness!(c10_contains_dispatch_n0, 0, 8);
//       |   ---------------------------------------------------------- in this macro invocation
//       |
//       = note: this warning originates in the macro `contains_dispatch_harness` (in Nightly builds, run with -Z macro-backtrace for more info)
//   
//   warning: `wirefilter-engine` (lib test) generated 14 warnings (1 duplicate)
//       Finished `test` profile [optimized + debuginfo] target(s) in 0.97s
//        Running unittests src/lib.rs (/tmp/wfk-C09-ez5emw_c/t/playback/x86_64-unknown-linux-gnu/debug/build/wirefilter-engine/d90bf24948a58b85/out/wirefilter-d90bf24948a58b85)
//   
//   running 1 test
//   test range_set::verif_kani_c09::kani_concrete_playback_c09_rangeset_v4_n3_17240304368483991793 ... ok
//   
//   test result: ok. 1 passed; 0 failed; 0 ignored; 0 measured; 137 filtered out; finished in 0.00s
//   [release profile] kani_concrete_playback_c09_rangeset_v4_n3_3587823866850617277 -> does not fail
//   590 | |             kani::assume(llen <= 4);
//   ...   |
//   614 | |             kani::cover!($n == 0 || (!got && llen >= $n));
//       | |____________________________________________________^
//   ...
//   621 |   contains_dispatch_harness!(c10_contains_dispatch_n0, 0, 8);
//       |   ---------------------------------------------------------- in this macro invocation
//       |
//       = note: this warning originates in the macro `contains_dispatch_harness` (in Nightly builds, run with -Z macro-backtrace for more info)
//   
//   warning: `wirefilter-engine` (lib test) generated 14 warnings (1 duplicate)
//       Finished `test` profile [optimized + debuginfo] target(s) in 2.89s
//        Running unittests src/lib.rs (/tmp/wfk-C09-ez5emw_c/t/playback/x86_64-unknown-linux-gnu/debug/build/wirefilter-engine/d90bf24948a58b85/out/wirefilter-d90bf24948a58b85)
//   
//   running 1 test
//   test range_set::verif_kani_c09::kani_concrete_playback_c09_rangeset_v4_n3_3587823866850617277 ... ok
//   
//   test result: ok. 1 passed; 0 failed; 0 ignored; 0 measured; 137 filtered out; finished in 0.01s
// replay: /verif/bin/check C09 --replay /verif/replays/C09/c09_rangeset_v4_n3.rs
//@harness c09_rangeset_v4_n3
//@mod verif_kani_c09
/// Test generated for harness `range_set::verif_kani_c09::c09_rangeset_v4_n3` 
///
/// Check for `assertion`: ""RangeSet::contains disagrees with 'some listed range contains x'""

#[test]
fn kani_concrete_playback_c09_rangeset_v4_n3_11076070758675418540() {
    let concrete_vals: Vec<Vec<u8>> = vec![
        // 2147016959
        vec![255, 224, 248, 127],
        // 2214551552
        vec![0, 96, 255, 131],
        // 16761343
        vec![255, 193, 255, 0],
        // 16761343
        vec![255, 193, 255, 0],
        // 2138669055
        vec![255, 127, 121, 127],
        // 3273668863
        vec![255, 56, 32, 195],
        // 2382201089
        vec![1, 129, 253, 141],
    ];
    kani::concrete_playback_run(concrete_vals, c09_rangeset_v4_n3);
}
/// Test generated for harness `range_set::verif_kani_c09::c09_rangeset_v4_n3` 
///
/// Check for `cover`: "cover condition: got && overlap && set.ranges.len() < 3"

#[test]
fn kani_concrete_playback_c09_rangeset_v4_n3_17240304368483991793() {
    let concrete_vals: Vec<Vec<u8>> = vec![
        // 0
        vec![0, 0, 0, 0],
        // 0
        vec![0, 0, 0, 0],
        // 0
        vec![0, 0, 0, 0],
        // 0
        vec![0, 0, 0, 0],
        // 0
        vec![0, 0, 0, 0],
        // 0
        vec![0, 0, 0, 0],
        // 0
        vec![0, 0, 0, 0],
    ];
    kani::concrete_playback_run(concrete_vals, c09_rangeset_v4_n3);
}
/// Test generated for harness `range_set::verif_kani_c09::c09_rangeset_v4_n3` 
///
/// Check for `cover`: "cover condition: ! got && set.ranges.len() == 3"

#[test]
fn kani_concrete_playback_c09_rangeset_v4_n3_15941234533533638602() {
    let concrete_vals: Vec<Vec<u8>> = vec![
        // 947912856
        vec![152, 0, 128, 56],
        // 954269584
        vec![144, 255, 224, 56],
        // 1543323039
        vec![159, 61, 253, 91],
        // 3202875680
        vec![32, 1, 232, 190],
        // 115343503
        vec![143, 0, 224, 6],
        // 746586263
        vec![151, 0, 128, 44],
        // 1543224639
        vec![63, 189, 251, 91],
    ];
    kani::concrete_playback_run(concrete_vals, c09_rangeset_v4_n3);
}
/// Test generated for harness `range_set::verif_kani_c09::c09_rangeset_v4_n3` 
///
/// Check for `cover`: "cover condition: got && probe == Ipv4Addr::from(u32::MAX)"

#[test]
fn kani_concrete_playback_c09_rangeset_v4_n3_12505112078312845097() {
    let concrete_vals: Vec<Vec<u8>> = vec![
        // 2159599871
        vec![255, 224, 184, 128],
        // 4294967295
        vec![255, 255, 255, 255],
        // 2138931199
        vec![255, 127, 125, 127],
        // 4294492671
        vec![255, 193, 248, 255],
        // 5996030
        vec![254, 125, 91, 0],
        // 16761279
        vec![191, 193, 255, 0],
        // 4294967295
        vec![255, 255, 255, 255],
    ];
    kani::concrete_playback_run(concrete_vals, c09_rangeset_v4_n3);
}
/// Test generated for harness `range_set::verif_kani_c09::c09_rangeset_v4_n3` 
///
/// Check for `cover`: "cover condition: got && probe == ends [3 - 1] && starts [3 - 1] < ends [3 - 1]"

#[test]
fn kani_concrete_playback_c09_rangeset_v4_n3_3587823866850617277() {
    let concrete_vals: Vec<Vec<u8>> = vec![
        // 1070891160
        vec![152, 128, 212, 63],
        // 1073512576
        vec![128, 128, 252, 63],
        // 1070891167
        vec![159, 128, 212, 63],
        // 2063630375
        vec![39, 128, 0, 123],
        // 1061258143
        vec![159, 131, 65, 63],
        // 1996521568
        vec![96, 128, 0, 119],
        // 1996521568
        vec![96, 128, 0, 119],
    ];
    kani::concrete_playback_run(concrete_vals, c09_rangeset_v4_n3);
}
